// Copyright Istio Authors
//
// Licensed under the Apache License, Version 2.0 (the "License");
// you may not use this file except in compliance with the License.
// You may obtain a copy of the License at
//
//     http://www.apache.org/licenses/LICENSE-2.0
//
// Unless required by applicable law or agreed to in writing, software
// distributed under the License is distributed on an "AS IS" BASIS,
// WITHOUT WARRANTIES OR CONDITIONS OF ANY KIND, either express or implied.
// See the License for the specific language governing permissions and
// limitations under the License.

package xds_test

// C17 (map-order determinism) triage for the sites S5 (ECDS pull secrets), S6 (krt CollectionGenerator deltas) and
// S7 (EDS). Every test generates the same response for the same proxy from the same state `pilotxds.C17Generations` times
// with the real generators and requires the same resources, in the same order, with the same (deterministically
// marshalled) bytes every time.

import (
	"fmt"
	"strings"
	"testing"
	"time"

	endpoint "github.com/envoyproxy/go-control-plane/envoy/config/endpoint/v3"
	discovery "github.com/envoyproxy/go-control-plane/envoy/service/discovery/v3"
	corev1 "k8s.io/api/core/v1"
	"k8s.io/apimachinery/pkg/runtime"

	"istio.io/istio/pilot/pkg/model"
	pilotxds "istio.io/istio/pilot/pkg/xds"
	v3 "istio.io/istio/pilot/pkg/xds/v3"
	"istio.io/istio/pilot/test/xds"
	"istio.io/istio/pkg/config"
	"istio.io/istio/pkg/config/constants"
	"istio.io/istio/pkg/spiffe"
	"istio.io/istio/pkg/util/sets"
)

// ---------------------------------------------------------------------------------------------------------------------
// S5: ecds.go referencedSecrets, `for rn := range referencedSecrets { filtered = append(filtered, sr) }`
// ---------------------------------------------------------------------------------------------------------------------

func c17ECDSServer(t *testing.T) (*xds.FakeDiscoveryServer, *model.Proxy, *model.WatchedResource, *model.PushRequest) {
	names := []string{"alpha", "bravo", "charlie", "delta"}
	var objs []runtime.Object
	var cfgs []config.Config
	watched := sets.New[string]()
	for _, n := range names {
		objs = append(objs, makeDockerCredentials("pull-"+n, "default", map[string]string{
			corev1.DockerConfigJsonKey: "credential-" + n,
		}, corev1.SecretTypeDockerConfigJson))
		cfgs = append(cfgs, makeTrafficExtension("ext-"+n, "default", "pull-"+n))
		watched.Insert("extensions.istio.io/trafficextension/default.ext-" + n)
	}
	s := xds.NewFakeDiscoveryServer(t, xds.FakeOptions{KubernetesObjects: objs, Configs: cfgs})
	proxy := s.SetupProxy(&model.Proxy{
		VerifiedIdentity: &spiffe.Identity{Namespace: "default"},
		Type:             model.Router,
		Metadata:         &model.NodeMetadata{ClusterID: constants.DefaultClusterName},
	})
	req := &model.PushRequest{Forced: true, Start: time.Now(), Push: s.PushContext()}
	return s, proxy, &model.WatchedResource{TypeUrl: v3.ExtensionConfigurationType, ResourceNames: watched}, req
}

// The flagged slice really is in random order ...
func TestC17_S5_ReferencedSecretsSliceOrderIsRandom_Informational(t *testing.T) {
	_, proxy, w, req := c17ECDSServer(t)
	orders := pilotxds.C17Orders{}
	for i := 0; i < pilotxds.C17Generations; i++ {
		orders.Add(pilotxds.C17ReferencedSecretNames(proxy, req.Push, w.ResourceNames))
	}
	t.Logf("referencedSecrets() returned %d distinct orders over %d calls:%v", len(orders), pilotxds.C17Generations, orders)
}

// ... but the order never reaches the output: the slice is only (a) scanned for "any match" and (b) turned into a
// map[resourceName]credential by GeneratePullSecrets, from which every extension looks up its own secret by key.
// So the property for S5 is: every ECDS resource (which embeds its pull secret) is byte-identical on every generation.
func TestC17_S5_PullSecretsInECDSResources(t *testing.T) {
	s, proxy, w, req := c17ECDSServer(t)
	gen := s.Discovery.Generators[v3.ExtensionConfigurationType]
	var first map[string]string
	for i := 0; i < pilotxds.C17Generations; i++ {
		res, _, err := gen.Generate(proxy, w, req)
		if err != nil {
			t.Fatal(err)
		}
		if len(res) != 4 {
			t.Fatalf("expected 4 extension configs, got %v", pilotxds.C17Names(res))
		}
		got := pilotxds.C17Bytes(t, res)
		if first == nil {
			first = got
			// sanity: the pull secrets are really embedded (so the comparison is meaningful)
			for n, b := range got {
				want := "credential-" + strings.TrimPrefix(n, "extensions.istio.io/trafficextension/default.ext-")
				if !strings.Contains(b, want) {
					t.Fatalf("resource %s does not embed its pull secret %q", n, want)
				}
			}
			continue
		}
		for n, b := range got {
			if first[n] != b {
				t.Fatalf("generation #%d: ECDS resource %s differs from generation #0", i, n)
			}
		}
	}
	// the pull secret map itself
	m0, err := pilotxds.C17PullSecrets(gen, proxy, req.Push, w.ResourceNames)
	if err != nil {
		t.Fatal(err)
	}
	for i := 0; i < pilotxds.C17Generations; i++ {
		m, _ := pilotxds.C17PullSecrets(gen, proxy, req.Push, w.ResourceNames)
		if len(m) != 4 || len(m) != len(m0) {
			t.Fatalf("pull secrets: got %d entries", len(m))
		}
		for k, v := range m {
			if string(m0[k]) != string(v) {
				t.Fatalf("pull secret %s differs", k)
			}
		}
	}
}

// ADJACENT to S5, not S5 itself (ecds.go:118): Generate passes `w.ResourceNames.UnsortedList()` to
// BuildExtensionConfiguration, and PushContext.TrafficExtensionsByName / InsertedTrafficExtensionConfigurations
// emit the extension configs in the order of that list, so the ORDER of the resources in the ECDS response is
// map order.
func TestC17_S5_Adjacent_ECDSResourceOrder(t *testing.T) {
	s, proxy, w, req := c17ECDSServer(t)
	gen := s.Discovery.Generators[v3.ExtensionConfigurationType]
	orders := pilotxds.C17Orders{}
	for i := 0; i < pilotxds.C17Generations; i++ {
		res, _, err := gen.Generate(proxy, w, req)
		if err != nil {
			t.Fatal(err)
		}
		var short []string
		for _, n := range pilotxds.C17Names(res) {
			short = append(short, strings.TrimPrefix(n, "extensions.istio.io/trafficextension/default."))
		}
		orders.Add(short)
	}
	if len(orders) != 1 {
		t.Errorf("ECDS response for the same proxy/state listed its resources in %d distinct orders over %d generations:%v",
			len(orders), pilotxds.C17Generations, orders)
	}
}

// ---------------------------------------------------------------------------------------------------------------------
// S7: eds.go EdsGenerator.buildEndpoints, `for clusterName := range w.ResourceNames`
// ---------------------------------------------------------------------------------------------------------------------

func c17EDSConfig() (string, []string) {
	sb := &strings.Builder{}
	var clusters []string
	for i, n := range []string{"alpha", "bravo", "charlie", "delta"} {
		fmt.Fprintf(sb, `
---
apiVersion: networking.istio.io/v1
kind: ServiceEntry
metadata:
  name: se-%[1]s
  namespace: default
spec:
  hosts:
  - %[1]s.example.com
  location: MESH_INTERNAL
  resolution: STATIC
  ports:
  - number: 80
    name: http
    protocol: HTTP
  endpoints:
  - address: 10.0.%[2]d.1
  - address: 10.0.%[2]d.2
`, n, i)
		clusters = append(clusters, fmt.Sprintf("outbound|80||%s.example.com", n))
	}
	return sb.String(), clusters
}

func TestC17_S7_EDSGeneratorResourceOrder(t *testing.T) {
	cfg, clusters := c17EDSConfig()
	s := xds.NewFakeDiscoveryServer(t, xds.FakeOptions{ConfigString: cfg})
	proxy := s.SetupProxy(&model.Proxy{ConfigNamespace: "default"})
	gen := s.Discovery.Generators[v3.EndpointType]
	w := &model.WatchedResource{TypeUrl: v3.EndpointType, ResourceNames: sets.New(clusters...)}
	req := &model.PushRequest{Forced: true, Push: s.PushContext(), Start: time.Now()}

	orders := pilotxds.C17Orders{}
	var first map[string]string
	for i := 0; i < pilotxds.C17Generations; i++ {
		res, _, err := gen.Generate(proxy, w, req)
		if err != nil {
			t.Fatal(err)
		}
		if len(res) != len(clusters) {
			t.Fatalf("expected %d ClusterLoadAssignments, got %v", len(clusters), pilotxds.C17Names(res))
		}
		b := pilotxds.C17Bytes(t, res)
		if first == nil {
			first = b
			// sanity: the assignments really carry endpoints
			for _, r := range res {
				cla := &endpoint.ClusterLoadAssignment{}
				if err := r.Resource.UnmarshalTo(cla); err != nil || len(cla.Endpoints) == 0 {
					t.Fatalf("ClusterLoadAssignment %s is empty (err=%v)", r.Name, err)
				}
			}
		}
		for n := range b {
			// each individual ClusterLoadAssignment is stable ...
			if b[n] != first[n] {
				t.Fatalf("generation #%d: ClusterLoadAssignment %s changed content", i, n)
			}
		}
		var short []string
		for _, n := range pilotxds.C17Names(res) {
			short = append(short, strings.TrimSuffix(strings.TrimPrefix(n, "outbound|80||"), ".example.com"))
		}
		orders.Add(short)
	}
	// ... but their order inside the response is not.
	if len(orders) != 1 {
		t.Errorf("EDS response for the same proxy/state listed its ClusterLoadAssignments in %d distinct orders over %d generations:%v",
			len(orders), pilotxds.C17Generations, orders)
	}
}

// Same thing on the wire: N fresh ADS streams of the same node ask for the same four clusters (always in the same
// order in the request) and must receive the same DiscoveryResponse.Resources list.
func TestC17_S7_EDSOverADS(t *testing.T) {
	cfg, clusters := c17EDSConfig()
	s := xds.NewFakeDiscoveryServer(t, xds.FakeOptions{ConfigString: cfg})
	orders := pilotxds.C17Orders{}
	const streams = 40
	for i := 0; i < streams; i++ {
		ads := s.ConnectADS().WithType(v3.EndpointType)
		resp := ads.RequestResponseAck(t, &discovery.DiscoveryRequest{ResourceNames: clusters})
		var short []string
		for _, r := range resp.Resources {
			cla := &endpoint.ClusterLoadAssignment{}
			if err := r.UnmarshalTo(cla); err != nil {
				t.Fatal(err)
			}
			short = append(short, strings.TrimSuffix(strings.TrimPrefix(cla.ClusterName, "outbound|80||"), ".example.com"))
		}
		if len(short) != len(clusters) {
			t.Fatalf("expected %d resources, got %v", len(clusters), short)
		}
		orders.Add(short)
		ads.Cleanup()
	}
	if len(orders) != 1 {
		t.Errorf("EDS DiscoveryResponse for the same node and request listed its resources in %d distinct orders over %d streams:%v",
			len(orders), streams, orders)
	}
}
