// Copyright Istio Authors
//
// Licensed under the Apache License, Version 2.0 (the "License");
// you may not use this file except in compliance with the License.
// You may obtain a copy of the License at
//
//     http://www.apache.org/licenses/LICENSE-2.0
//
// Unless required by applicable law or agreed to in writing, software
// distributed under the License is distributed on an "AS IS" BASIS,
// WITHOUT WARRANTIES OR CONDITIONS OF ANY KIND, either express or implied.
// See the License for the specific language governing permissions and
// limitations under the License.

package core

// C17 (map-order determinism) triage for the RDS sites S1..S4.
//
// Every test generates the same route configuration(s) for the same proxy from the same PushContext
// `c17Generations` times through the real generator (ConfigGeneratorImpl.BuildHTTPRoutes, XDS cache
// disabled so every call regenerates) and requires every generation to be byte-identical
// (deterministic protobuf marshalling) to the first one.

import (
	"fmt"
	"sort"
	"strings"
	"testing"

	route "github.com/envoyproxy/go-control-plane/envoy/config/route/v3"
	"google.golang.org/protobuf/proto"

	meshconfig "istio.io/api/mesh/v1alpha1"
	"istio.io/istio/pilot/pkg/model"
	"istio.io/istio/pkg/config/mesh"
)

const c17Generations = 300

// c17Generate runs one RDS generation and returns, per requested route, the deterministic bytes and the decoded message.
func c17Generate(t *testing.T, cg *ConfigGenTest, proxy *model.Proxy, routeNames []string) ([][]byte, []*route.RouteConfiguration) {
	t.Helper()
	resources, _ := cg.ConfigGen.BuildHTTPRoutes(proxy, &model.PushRequest{Push: cg.PushContext()}, routeNames)
	if len(resources) != len(routeNames) {
		t.Fatalf("expected %d route configurations, got %d", len(routeNames), len(resources))
	}
	bs := make([][]byte, 0, len(resources))
	rcs := make([]*route.RouteConfiguration, 0, len(resources))
	for _, r := range resources {
		b, err := proto.MarshalOptions{Deterministic: true}.Marshal(r)
		if err != nil {
			t.Fatal(err)
		}
		rc := &route.RouteConfiguration{}
		if err := r.Resource.UnmarshalTo(rc); err != nil {
			t.Fatal(err)
		}
		bs = append(bs, b)
		rcs = append(rcs, rc)
	}
	return bs, rcs
}

// c17Describe gives a compact, order preserving rendering of the parts of a RouteConfiguration the sites can influence.
func c17Describe(rc *route.RouteConfiguration) string {
	sb := &strings.Builder{}
	for _, vh := range rc.VirtualHosts {
		fmt.Fprintf(sb, "    vhost %-28s domains=%v\n", vh.Name, vh.Domains)
		for _, r := range vh.Routes {
			var qp, dm, hd []string
			for _, q := range r.GetMatch().GetQueryParameters() {
				qp = append(qp, q.Name)
			}
			for _, m := range r.GetMatch().GetDynamicMetadata() {
				p := m.GetPath()
				dm = append(dm, p[len(p)-1].GetKey())
			}
			for _, h := range r.GetMatch().GetHeaders() {
				hd = append(hd, h.Name)
			}
			if len(qp)+len(dm)+len(hd) > 0 {
				fmt.Fprintf(sb, "      route %q headers=%v queryParams=%v dynamicMetadata(claims)=%v\n", r.Name, hd, qp, dm)
			}
		}
	}
	return sb.String()
}

// c17AssertStable is the property: all generations are byte-identical. It reports the number of distinct outputs seen.
func c17AssertStable(t *testing.T, cg *ConfigGenTest, proxy *model.Proxy, routeNames ...string) {
	t.Helper()
	firstB, firstRC := c17Generate(t, cg, proxy, routeNames)
	distinct := map[string]int{}
	for i := range firstB {
		distinct[string(firstB[i])] = 0
	}
	var diffAt, diffRoute int
	var diffRC *route.RouteConfiguration
	for gen := 1; gen < c17Generations; gen++ {
		bs, rcs := c17Generate(t, cg, proxy, routeNames)
		for i := range bs {
			if _, f := distinct[string(bs[i])]; !f {
				distinct[string(bs[i])] = gen
				if diffRC == nil {
					diffAt, diffRoute, diffRC = gen, i, rcs[i]
				}
			}
		}
	}
	if diffRC != nil {
		t.Errorf("route %q: generation #%d differs from generation #0 for the same proxy and PushContext "+
			"(%d distinct serialisations over %d generations)\n  generation #0:\n%s  generation #%d:\n%s",
			routeNames[diffRoute], diffAt, len(distinct)-len(routeNames)+1, c17Generations,
			c17Describe(firstRC[diffRoute]), diffAt, c17Describe(diffRC))
	}
}

func c17ServiceEntry(name, hostname, address string, ports ...int) string {
	sb := &strings.Builder{}
	fmt.Fprintf(sb, `
---
apiVersion: networking.istio.io/v1
kind: ServiceEntry
metadata:
  name: %s
  namespace: default
spec:
  hosts:
  - %s
  addresses:
  - %s
  location: MESH_EXTERNAL
  resolution: DNS
  ports:
`, name, hostname, address)
	for _, p := range ports {
		fmt.Fprintf(sb, "  - number: %d\n    name: http-%d\n    protocol: HTTP\n", p, p)
	}
	return sb.String()
}

// ---------------------------------------------------------------------------------------------------------------------
// S1: route.go TranslateRouteMatch, `for name, stringMatch := range in.QueryParams` (and the DynamicMetadata matchers
// produced by the `range in.Headers` / `range in.WithoutHeaders` loops, which are not covered by the sort of out.Headers).
// ---------------------------------------------------------------------------------------------------------------------

func TestC17_S1_QueryParams(t *testing.T) {
	cg := NewConfigGenTest(t, TestOptions{ConfigString: c17ServiceEntry("se-a", "a.example.com", "10.10.10.1", 80) + `
---
apiVersion: networking.istio.io/v1
kind: VirtualService
metadata:
  name: vs-a
  namespace: default
spec:
  hosts:
  - a.example.com
  http:
  - name: by-query
    match:
    - queryParams:
        alpha: {exact: "1"}
        bravo: {exact: "2"}
        charlie: {exact: "3"}
        delta: {exact: "4"}
      headers:
        x-h1: {exact: "1"}
        x-h2: {exact: "2"}
        x-h3: {exact: "3"}
    route:
    - destination:
        host: a.example.com
`})
	c17AssertStable(t, cg, cg.SetupProxy(nil), "80")
}

// JWT claim routing ("@request.auth.claims.*" pseudo headers) is only valid on gateways, so this one goes through the
// gateway RDS generator (buildGatewayHTTPRouteConfig -> BuildHTTPRoutesForVirtualService -> TranslateRouteMatch).
func TestC17_S1_DynamicMetadataFromClaimHeaders(t *testing.T) {
	cg := NewConfigGenTest(t, TestOptions{ConfigString: c17ServiceEntry("se-a", "a.example.com", "10.10.10.1", 80) + `
---
apiVersion: networking.istio.io/v1
kind: Gateway
metadata:
  name: gw
  namespace: default
spec:
  selector:
    istio: ingressgateway
  servers:
  - port:
      number: 80
      name: http
      protocol: HTTP
    hosts:
    - "a.example.com"
---
apiVersion: networking.istio.io/v1
kind: VirtualService
metadata:
  name: vs-a
  namespace: default
spec:
  hosts:
  - a.example.com
  gateways:
  - gw
  http:
  - name: by-claims
    match:
    - headers:
        "@request.auth.claims.alpha": {exact: "1"}
        "@request.auth.claims.bravo": {exact: "2"}
        x-h1: {exact: "1"}
        x-h2: {exact: "2"}
      withoutHeaders:
        "@request.auth.claims.charlie": {exact: "3"}
        "@request.auth.claims.delta": {exact: "4"}
    route:
    - destination:
        host: a.example.com
`})
	proxy := cg.SetupProxy(&model.Proxy{
		Type:            model.Router,
		ConfigNamespace: "default",
		Labels:          map[string]string{"istio": "ingressgateway"},
		Metadata:        &model.NodeMetadata{Labels: map[string]string{"istio": "ingressgateway"}, Namespace: "default"},
	})
	c17AssertStable(t, cg, proxy, "http.80")
}

// Control for S1: plain header matches ARE sorted in TranslateRouteMatch ("guarantee ordering of headers").
func TestC17_S1_Control_HeadersAreSorted(t *testing.T) {
	cg := NewConfigGenTest(t, TestOptions{ConfigString: c17ServiceEntry("se-a", "a.example.com", "10.10.10.1", 80) + `
---
apiVersion: networking.istio.io/v1
kind: VirtualService
metadata:
  name: vs-a
  namespace: default
spec:
  hosts:
  - a.example.com
  http:
  - name: by-header
    match:
    - headers:
        x-h1: {exact: "1"}
        x-h2: {exact: "2"}
        x-h3: {exact: "3"}
        x-h4: {exact: "4"}
      withoutHeaders:
        x-n1: {exact: "1"}
        x-n2: {exact: "2"}
        x-n3: {exact: "3"}
    route:
    - destination:
        host: a.example.com
`})
	c17AssertStable(t, cg, cg.SetupProxy(nil), "80")
}

// ---------------------------------------------------------------------------------------------------------------------
// S2: route.go BuildSidecarVirtualHostWrapper, `for _, svc := range serviceRegistry` (services without a VirtualService).
// ---------------------------------------------------------------------------------------------------------------------

// Control: the ORDER of the virtual hosts is canonicalised downstream (util.SortVirtualHosts in
// buildSidecarOutboundHTTPRouteConfig), so services that share nothing produce stable output.
func TestC17_S2_Control_DisjointServices(t *testing.T) {
	cg := NewConfigGenTest(t, TestOptions{ConfigString: c17ServiceEntry("se-a", "a.example.com", "10.10.10.1", 80) +
		c17ServiceEntry("se-b", "b.example.com", "10.10.10.2", 80) +
		c17ServiceEntry("se-c", "c.example.com", "10.10.10.3", 80) +
		c17ServiceEntry("se-d", "d.example.com", "10.10.10.4", 80)})
	c17AssertStable(t, cg, cg.SetupProxy(nil), "80")
}

// The processing order still leaks: BuildSidecarOutboundVirtualHosts dedupes domains first-come-first-served
// (dedupeDomains/vhdomains), so when two services can claim the same domain (here: the same VIP), the service
// that happens to come first out of the map gets it.
func TestC17_S2_ServicesSharingAVIP(t *testing.T) {
	cg := NewConfigGenTest(t, TestOptions{ConfigString: c17ServiceEntry("se-a", "a.example.com", "10.10.10.10", 80) +
		c17ServiceEntry("se-b", "b.example.com", "10.10.10.10", 80) +
		c17ServiceEntry("se-c", "c.example.com", "10.10.10.10", 80)})
	c17AssertStable(t, cg, cg.SetupProxy(nil), "80")
}

// Second, byte-independent effect of S2: the consistent-hash DestinationRules collected in the same loop are stored in
// route.Cache.DestinationRules in map order and route.Cache.Key() hashes them in slice order, so the RDS cache key of
// the same proxy/route/state is not stable (the code right above explicitly sorts Services "to ensure that routeCache
// calculation result is stable").
func TestC17_S2_RouteCacheKey(t *testing.T) {
	dr := func(name, h string) string {
		return fmt.Sprintf(`
---
apiVersion: networking.istio.io/v1
kind: DestinationRule
metadata:
  name: %s
  namespace: default
spec:
  host: %s
  trafficPolicy:
    loadBalancer:
      consistentHash:
        httpHeaderName: x-user
`, name, h)
	}
	cg := NewConfigGenTest(t, TestOptions{ConfigString: c17ServiceEntry("se-a", "a.example.com", "10.10.10.1", 80) +
		c17ServiceEntry("se-b", "b.example.com", "10.10.10.2", 80) +
		c17ServiceEntry("se-c", "c.example.com", "10.10.10.3", 80) +
		dr("dr-a", "a.example.com") + dr("dr-b", "b.example.com") + dr("dr-c", "c.example.com")})
	proxy := cg.SetupProxy(nil)
	drOrder := func() (any, string) {
		_, _, rc := BuildSidecarOutboundVirtualHosts(proxy, cg.PushContext(), "80", 80, nil, cg.ConfigGen.Cache)
		if rc == nil {
			t.Fatal("no route cache entry built")
		}
		var names []string
		for _, d := range rc.DestinationRules {
			for _, f := range d.GetFrom() {
				names = append(names, f.Name)
			}
		}
		return rc.Key(), strings.Join(names, ",")
	}
	k0, o0 := drOrder()
	keys := map[any]string{k0: o0}
	for i := 1; i < c17Generations; i++ {
		k, o := drOrder()
		keys[k] = o
	}
	if len(keys) != 1 {
		var l []string
		for k, o := range keys {
			l = append(l, fmt.Sprintf("key=%v DestinationRules=[%s]", k, o))
		}
		sort.Strings(l)
		t.Errorf("RDS cache key for the same proxy, route and PushContext took %d distinct values over %d computations:\n  %s",
			len(keys), c17Generations, strings.Join(l, "\n  "))
	}
	// the bytes themselves are stable for this config
	c17AssertStable(t, cg, proxy, "80")
}

// ---------------------------------------------------------------------------------------------------------------------
// S3: route.go separateVSHostsAndServices, `for svcHost, svc := range serviceRegistry` (wildcard VirtualService host).
// ---------------------------------------------------------------------------------------------------------------------

const c17WildcardVS = `
---
apiVersion: networking.istio.io/v1
kind: VirtualService
metadata:
  name: vs-wild
  namespace: default
spec:
  hosts:
  - "*.example.com"
  http:
  - name: all
    route:
    - destination:
        host: a.example.com
`

// Control: the services matched by the wildcard host come out of the map in random order, but each becomes its own
// virtual host and the list is sorted by name downstream.
func TestC17_S3_Control_DisjointServices(t *testing.T) {
	cg := NewConfigGenTest(t, TestOptions{ConfigString: c17ServiceEntry("se-a", "a.example.com", "10.10.10.1", 80) +
		c17ServiceEntry("se-b", "b.example.com", "10.10.10.2", 80) +
		c17ServiceEntry("se-c", "c.example.com", "10.10.10.3", 80) + c17WildcardVS})
	c17AssertStable(t, cg, cg.SetupProxy(nil), "80")
}

func TestC17_S3_WildcardHostServicesSharingAVIP(t *testing.T) {
	cg := NewConfigGenTest(t, TestOptions{ConfigString: c17ServiceEntry("se-a", "a.example.com", "10.10.10.10", 80) +
		c17ServiceEntry("se-b", "b.example.com", "10.10.10.10", 80) +
		c17ServiceEntry("se-c", "c.example.com", "10.10.10.10", 80) + c17WildcardVS})
	c17AssertStable(t, cg, cg.SetupProxy(nil), "80")
}

// ---------------------------------------------------------------------------------------------------------------------
// S4: route.go buildSidecarVirtualHostsForVirtualService, `for port, services := range serviceByPort`.
// ---------------------------------------------------------------------------------------------------------------------

const c17VSForA = `
---
apiVersion: networking.istio.io/v1
kind: VirtualService
metadata:
  name: vs-a
  namespace: default
spec:
  hosts:
  - a.example.com
  http:
  - name: all
    route:
    - destination:
        host: a.example.com
        port:
          number: 80
`

// Control: for a normal port listener every service is reduced to the listener port before the map is built
// (BuildSidecarOutboundVirtualHosts: Ports: []*model.Port{svcPort}), so serviceByPort has a single key.
func TestC17_S4_Control_PortListener(t *testing.T) {
	cg := NewConfigGenTest(t, TestOptions{ConfigString: c17ServiceEntry("se-a", "a.example.com", "10.10.10.1", 80, 8080, 9090) + c17VSForA})
	c17AssertStable(t, cg, cg.SetupProxy(nil), "80", "8080", "9090")
}

// With listenerPort == 0 (the "http_proxy" route of the mesh-wide/proxy HTTP proxy port, or a unix domain socket
// egress listener) services keep all their ports, serviceByPort has one key per HTTP port and the wrappers are
// emitted in map order. The first wrapper wins the port-less domains in dedupeDomains, and mergeAllVirtualHosts then
// drops port-less domains from every wrapper except port 80.
func TestC17_S4_HTTPProxyRoute(t *testing.T) {
	m := mesh.DefaultMeshConfig()
	m.ProxyHttpPort = 15080
	m.OutboundTrafficPolicy = &meshconfig.MeshConfig_OutboundTrafficPolicy{Mode: meshconfig.MeshConfig_OutboundTrafficPolicy_ALLOW_ANY}
	cg := NewConfigGenTest(t, TestOptions{
		MeshConfig:   m,
		ConfigString: c17ServiceEntry("se-a", "a.example.com", "10.10.10.1", 80, 8080, 9090) + c17VSForA,
	})
	c17AssertStable(t, cg, cg.SetupProxy(nil), model.RDSHttpProxy)
}

// Same site, VirtualService host that is NOT in the service registry: its only domain is port-less, so the whole
// virtual host exists only when the port-80 wrapper happens to be first.
func TestC17_S4_HTTPProxyRoute_NonRegistryHost(t *testing.T) {
	m := mesh.DefaultMeshConfig()
	m.ProxyHttpPort = 15080
	cg := NewConfigGenTest(t, TestOptions{
		MeshConfig: m,
		ConfigString: c17ServiceEntry("se-a", "a.example.com", "10.10.10.1", 80, 8080, 9090) +
			strings.Replace(c17VSForA, "  - a.example.com\n", "  - a.example.com\n  - not-in-registry.example.org\n", 1),
	})
	c17AssertStable(t, cg, cg.SetupProxy(nil), model.RDSHttpProxy)
}
