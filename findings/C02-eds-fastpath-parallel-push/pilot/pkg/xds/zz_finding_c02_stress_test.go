// Finding C02-eds-fastpath-parallel-push, supplementary: NO instrumentation at all.
// Probabilistic: shows that the plain Go scheduler produces the stale-snapshot interleaving on its own.
// Opt-in (FINDING_C02_STRESS=1) because it is timing dependent; the deterministic tests are the other two files.

package xds_test

import (
	"fmt"
	"os"
	"sync"
	"testing"
	"time"

	networking "istio.io/api/networking/v1alpha3"
	"istio.io/istio/pilot/pkg/features"
	"istio.io/istio/pilot/pkg/model"
	"istio.io/istio/pilot/pkg/serviceregistry/provider"
	"istio.io/istio/pilot/test/xds"
	"istio.io/istio/pkg/config"
	"istio.io/istio/pkg/config/schema/gvk"
	"istio.io/istio/pkg/test"
	"istio.io/istio/pkg/test/util/retry"
)

func TestFindingC02StressNoInstrumentation(t *testing.T) {
	if os.Getenv("FINDING_C02_STRESS") == "" {
		t.Skip("set FINDING_C02_STRESS=1 to run")
	}
	t.Run("PILOT_ENABLE_EDS_DEBOUNCE=true(default,control)", func(t *testing.T) { runFindingC02Stress(t, true) })
	t.Run("PILOT_ENABLE_EDS_DEBOUNCE=false", func(t *testing.T) { runFindingC02Stress(t, false) })
}

func runFindingC02Stress(t *testing.T, edsDebounce bool) {
	test.SetForTest(t, &features.EnableEDSDebounce, edsDebounce)
	s := xds.NewFakeDiscoveryServer(t, xds.FakeOptions{ConfigString: findingC02Config})
	s.EnsureSynced(t)

	vs := func(dest string, rv string) config.Config {
		return config.Config{
			Meta: config.Meta{GroupVersionKind: gvk.VirtualService, Name: "a-to-x", Namespace: "default", ResourceVersion: rv},
			Spec: &networking.VirtualService{
				Hosts: []string{"a.example.com"},
				Http: []*networking.HTTPRoute{{
					Route: []*networking.HTTPRouteDestination{{Destination: &networking.Destination{Host: dest}}},
				}},
			},
		}
	}
	if _, err := s.Store().Create(vs("a.example.com", "")); err != nil {
		t.Fatal(err)
	}
	s.EnsureSynced(t)

	// globalRoute reports where the CURRENT global PushContext routes a.example.com:80 for a proxy initialised from it.
	globalRoute := func() string {
		p := s.SetupProxy(&model.Proxy{ID: "probe.default", IPAddresses: []string{"10.9.0.3"}})
		for _, rc := range s.Routes(p) {
			if rc.Name == "80" {
				got, _ := clusterForAIn(rc)
				return got
			}
		}
		return ""
	}

	const iterations = 100
	stale := 0
	for i := 0; i < iterations; i++ {
		dest := "b.example.com"
		if i%2 == 1 {
			dest = "a.example.com"
		}
		cur := s.Store().Get(gvk.VirtualService, "a-to-x", "default")
		var wg sync.WaitGroup
		wg.Add(1)
		go func() {
			defer wg.Done()
			for j := 0; j < 200; j++ {
				s.Discovery.EDSUpdate(model.ShardKey{Cluster: "extra-cluster", Provider: provider.Mock}, "a.example.com", "default",
					[]*model.IstioEndpoint{{
						Addresses:       []string{"10.0.1." + string(rune('0'+j%10))},
						ServicePortName: "http",
						EndpointPort:    80,
						HealthStatus:    model.Healthy,
					}})
			}
		}()
		if _, err := s.Store().Update(vs(dest, cur.ResourceVersion)); err != nil {
			t.Fatal(err)
		}
		wg.Wait()
		s.EnsureSynced(t)

		// The config store delivers its event asynchronously, so give the VirtualService notification a generous
		// second to arrive and be pushed; a late notification would start a push of its own that repairs the
		// snapshot. Only a snapshot that is still wrong after that, with every accepted notification committed
		// (InboundUpdates == CommittedUpdates, i.e. nothing left that could repair it), counts as lost.
		want := "outbound|80||" + dest
		got := ""
		_ = retry.UntilSuccess(func() error {
			s.EnsureSynced(t)
			if got = globalRoute(); got != want {
				return fmt.Errorf("not yet")
			}
			return nil
		}, retry.Timeout(time.Second), retry.Delay(10*time.Millisecond))
		if in, out := s.Discovery.InboundUpdates.Load(), s.Discovery.CommittedUpdates.Load(); in != out {
			t.Fatalf("not quiescent: inbound=%d committed=%d", in, out)
		}
		if got != want {
			stale++
			t.Logf("iteration %d: all updates committed, yet the global PushContext (version %s) routes a.example.com to %q, want %q",
				i, s.Env().PushContext().PushVersion, got, want)
			// Heal for the next iteration so that every hit is an independent occurrence.
			s.Discovery.ConfigUpdate(&model.PushRequest{Forced: true, Reason: model.NewReasonStats(model.DebugTrigger)})
			s.EnsureSynced(t)
		}
	}
	if stale > 0 {
		t.Errorf("global PushContext lost an accepted VirtualService update in %d of %d iterations", stale, iterations)
	}
}
