// Finding C02-eds-fastpath-parallel-push, level (a).
//
// Property under test: debounce() must never run two pushFn invocations at the same time.
// pushFn is DiscoveryServer.Push in production, which performs a non-atomic
// read-global-PushContext / build / publish sequence (initPushContext) that "should not be called
// in parallel" according to its own doc comment.

package xds

import (
	"sync"
	"testing"
	"time"

	uatomic "go.uber.org/atomic"

	"istio.io/istio/pilot/pkg/model"
	"istio.io/istio/pkg/config/schema/kind"
	"istio.io/istio/pkg/util/sets"
)

// overlapRecorder is a pushFn that records how many invocations are in flight at once. Every
// invocation parks on `release` so that the test, and not the scheduler, decides when a push ends.
type overlapRecorder struct {
	mu          sync.Mutex
	inFlight    int
	maxInFlight int
	started     chan string
	release     chan struct{}
}

func newOverlapRecorder() *overlapRecorder {
	return &overlapRecorder{
		started: make(chan string, 16),
		release: make(chan struct{}),
	}
}

func (o *overlapRecorder) push(req *model.PushRequest) {
	what := "full"
	if model.OnlyHasConfigsOfKind(req.ConfigsUpdated, kind.Endpoints) {
		what = "endpoints-only"
	}
	o.mu.Lock()
	o.inFlight++
	if o.inFlight > o.maxInFlight {
		o.maxInFlight = o.inFlight
	}
	o.mu.Unlock()
	o.started <- what

	<-o.release

	o.mu.Lock()
	o.inFlight--
	o.mu.Unlock()
}

func (o *overlapRecorder) max() int {
	o.mu.Lock()
	defer o.mu.Unlock()
	return o.maxInFlight
}

func TestFindingC02DebounceNeverRunsPushFnInParallel(t *testing.T) {
	for _, edsDebounce := range []bool{true, false} {
		name := "enableEDSDebounce=true"
		if !edsDebounce {
			name = "enableEDSDebounce=false"
		}
		t.Run(name, func(t *testing.T) {
			opts := DebounceOptions{
				DebounceAfter:     10 * time.Millisecond,
				debounceMax:       20 * time.Millisecond,
				enableEDSDebounce: edsDebounce,
			}
			rec := newOverlapRecorder()
			updateCh := make(chan *model.PushRequest)
			stopCh := make(chan struct{})
			done := make(chan struct{})
			go func() {
				debounce(updateCh, stopCh, opts, rec.push, uatomic.NewInt64(0))
				close(done)
			}()
			defer func() {
				close(rec.release) // let every parked pushFn return
				close(stopCh)
				<-done
			}()

			// 1. A VirtualService change. It is debounced and then handed to pushFn, which parks.
			updateCh <- &model.PushRequest{
				ConfigsUpdated: sets.New(model.ConfigKey{Kind: kind.VirtualService, Name: "vs", Namespace: "default"}),
				Reason:         model.NewReasonStats(model.ConfigUpdate),
			}
			select {
			case got := <-rec.started:
				if got != "full" {
					t.Fatalf("expected the debounced full push first, got %q", got)
				}
			case <-time.After(5 * time.Second):
				t.Fatal("debounced push never started")
			}

			// 2. While that push is still in flight, an endpoint-only change arrives.
			updateCh <- &model.PushRequest{
				ConfigsUpdated: sets.New(model.ConfigKey{Kind: kind.Endpoints, Name: "svc.example.com", Namespace: "default"}),
				Reason:         model.NewReasonStats(model.EndpointUpdate),
			}

			// 3. Give debounce ample time (50x DebounceAfter, 25x debounceMax) to start a second pushFn.
			//    A correct implementation must NOT start it before the first one returned.
			select {
			case got := <-rec.started:
				t.Errorf("pushFn(%s) was started while the previous pushFn(full) had not returned: "+
					"%d pushes in flight at once (want at most 1)", got, rec.max())
			case <-time.After(500 * time.Millisecond):
				// serialised: nothing else started while the first push is parked.
			}
			if m := rec.max(); m > 1 {
				t.Errorf("max concurrent pushFn invocations = %d, want 1", m)
			}
		})
	}
}
