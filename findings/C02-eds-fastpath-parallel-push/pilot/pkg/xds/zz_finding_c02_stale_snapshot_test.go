// Finding C02-eds-fastpath-parallel-push, level (b).
//
// Property under test: every accepted change notification is carried into a push that uses the
// newest snapshot; the global PushContext (from which newly connecting proxies are initialised and
// from which every later incremental PushContext is derived) never loses an accepted change.
//
// The test uses a real DiscoveryServer (NewFakeDiscoveryServer) with PILOT_ENABLE_EDS_DEBOUNCE=false.
// The only instrumentation is an XdsCache decorator that can park ONE endpoint-only
// DiscoveryServer.Push between "push context built" and "push context published"
// (dropCacheForRequest sits exactly between InitContext and Env.SetPushContext in initPushContext).
// Parking there only makes deterministic a schedule that the Go scheduler / cache lock contention
// can produce on its own.

package xds_test

import (
	"fmt"
	"sync/atomic"
	"testing"
	"time"

	route "github.com/envoyproxy/go-control-plane/envoy/config/route/v3"

	networking "istio.io/api/networking/v1alpha3"
	"istio.io/istio/pilot/pkg/features"
	"istio.io/istio/pilot/pkg/model"
	"istio.io/istio/pilot/pkg/serviceregistry/provider"
	"istio.io/istio/pilot/test/xds"
	v3 "istio.io/istio/pilot/pkg/xds/v3"
	"istio.io/istio/pkg/adsc"
	"istio.io/istio/pkg/config"
	"istio.io/istio/pkg/config/schema/gvk"
	"istio.io/istio/pkg/config/schema/kind"
	"istio.io/istio/pkg/test"
	"istio.io/istio/pkg/test/util/retry"
	"istio.io/istio/pkg/util/sets"
)

// findingGatedCache parks the first endpoint-only Clear() after arm() until release is closed.
type findingGatedCache struct {
	model.XdsCache
	armed   atomic.Bool
	entered chan struct{}
	release chan struct{}
}

func (g *findingGatedCache) Clear(c sets.Set[model.ConfigKey]) {
	if model.OnlyHasConfigsOfKind(c, kind.Endpoints) && g.armed.CompareAndSwap(true, false) {
		g.entered <- struct{}{}
		<-g.release
	}
	g.XdsCache.Clear(c)
}

const findingC02Config = `
apiVersion: networking.istio.io/v1
kind: ServiceEntry
metadata:
  name: a
  namespace: default
spec:
  hosts: [a.example.com]
  ports:
  - number: 80
    name: http
    protocol: HTTP
  resolution: STATIC
  location: MESH_INTERNAL
  endpoints:
  - address: 10.0.0.1
---
apiVersion: networking.istio.io/v1
kind: ServiceEntry
metadata:
  name: b
  namespace: default
spec:
  hosts: [b.example.com]
  ports:
  - number: 80
    name: http
    protocol: HTTP
  resolution: STATIC
  location: MESH_INTERNAL
  endpoints:
  - address: 10.0.0.2
`

var findingWatchAll = []string{v3.ClusterType, v3.EndpointType, v3.ListenerType, v3.RouteType}

// clusterForA returns the cluster that traffic for a.example.com:80 is routed to, as seen by the proxy.
func clusterForA(c *adsc.ADSC) (string, error) {
	rc := c.GetRoutes()["80"]
	if rc == nil {
		return "", fmt.Errorf("no route configuration \"80\" yet")
	}
	return clusterForAIn(rc)
}

func clusterForAIn(rc *route.RouteConfiguration) (string, error) {
	for _, vh := range rc.VirtualHosts {
		if vh.Name == "a.example.com:80" {
			if len(vh.Routes) == 0 {
				return "", fmt.Errorf("vhost has no routes")
			}
			return vh.Routes[0].GetRoute().GetCluster(), nil
		}
	}
	return "", fmt.Errorf("no vhost a.example.com:80")
}

func TestFindingC02EndpointFastPathMustNotPublishStaleSnapshot(t *testing.T) {
	// Control: with the default (EDS pushes are debounced and therefore single-flighted) the very same
	// schedule is harmless.
	t.Run("PILOT_ENABLE_EDS_DEBOUNCE=true(default,control)", func(t *testing.T) {
		runFindingC02StaleSnapshot(t, true)
	})
	t.Run("PILOT_ENABLE_EDS_DEBOUNCE=false", func(t *testing.T) {
		runFindingC02StaleSnapshot(t, false)
	})
}

func runFindingC02StaleSnapshot(t *testing.T, edsDebounce bool) {
	// Same effect as running istiod with PILOT_ENABLE_EDS_DEBOUNCE=<edsDebounce>: NewDiscoveryServer copies
	// the feature into DebounceOptions.enableEDSDebounce.
	test.SetForTest(t, &features.EnableEDSDebounce, edsDebounce)

	s := xds.NewFakeDiscoveryServer(t, xds.FakeOptions{ConfigString: findingC02Config})
	s.EnsureSynced(t)

	gate := &findingGatedCache{
		XdsCache: s.Discovery.Cache,
		entered:  make(chan struct{}, 1),
		release:  make(chan struct{}),
	}
	released := false
	releaseGate := func() {
		if !released {
			released = true
			close(gate.release)
		}
	}
	t.Cleanup(releaseGate)
	// No push is in flight (EnsureSynced above); later pushes are started through channel sends that
	// happen after this write.
	s.Discovery.Cache = gate

	const (
		routedToA = "outbound|80||a.example.com"
		routedToB = "outbound|80||b.example.com"
	)

	// A proxy that is connected for the whole test.
	connected := s.Connect(&model.Proxy{ID: "connected.default", IPAddresses: []string{"10.9.0.1"}}, findingWatchAll, findingWatchAll)
	if got, err := clusterForA(connected); err != nil || got != routedToA {
		t.Fatalf("precondition: connected proxy should route a.example.com to %q, got %q (%v)", routedToA, got, err)
	}

	snapshotX := s.Env().PushContext()
	committed0 := s.Discovery.CommittedUpdates.Load()

	// --- P2: endpoint-only change. With EDS debounce disabled it is pushed immediately by
	// `go func(req){ pushFn(req) ... }(r)` in debounce(), outside the free/freeCh single flight.
	gate.armed.Store(true)
	s.Discovery.EDSUpdate(model.ShardKey{Cluster: "extra-cluster", Provider: provider.Mock}, "a.example.com", "default",
		[]*model.IstioEndpoint{{
			Addresses:       []string{"10.0.0.9"},
			ServicePortName: "http",
			EndpointPort:    80,
			HealthStatus:    model.Healthy,
		}})
	select {
	case <-gate.entered:
		// P2 has read the global PushContext X, has built its own context B from it
		// (updateContext copies X's virtualServiceIndex / sidecarIndex), and has not published B yet.
	case <-time.After(10 * time.Second):
		t.Fatal("the endpoint update did not reach DiscoveryServer.Push as an endpoint-only request")
	}
	if s.Env().PushContext() != snapshotX {
		t.Fatal("precondition: nothing must have been published yet")
	}

	// --- P1: a VirtualService is accepted while P2 is still in flight.
	if _, err := s.Store().Create(config.Config{
		Meta: config.Meta{GroupVersionKind: gvk.VirtualService, Name: "a-to-b", Namespace: "default"},
		Spec: &networking.VirtualService{
			Hosts: []string{"a.example.com"},
			Http: []*networking.HTTPRoute{{
				Route: []*networking.HTTPRouteDestination{{Destination: &networking.Destination{Host: "b.example.com"}}},
			}},
		},
	}); err != nil {
		t.Fatal(err)
	}
	// If pushes are serialised (the repaired behaviour) P1 cannot complete while P2 is parked; that is fine,
	// we then simply release P2 and let both finish in order. On the current code P1 runs in parallel
	// with P2 and completes within milliseconds.
	p1RanInParallel := retry.UntilSuccess(func() error {
		if s.Discovery.CommittedUpdates.Load() < committed0+1 {
			return fmt.Errorf("VirtualService push not committed yet")
		}
		return nil
	}, retry.Timeout(3*time.Second), retry.Delay(5*time.Millisecond)) == nil
	t.Logf("VirtualService push completed while the endpoint-only push was still in flight: %v", p1RanInParallel)
	if p1RanInParallel {
		snapshotA := s.Env().PushContext()
		t.Logf("global PushContext after P1: version %s (X was %s)", snapshotA.PushVersion, snapshotX.PushVersion)
		// The connected proxy is told about the VirtualService from snapshot A.
		retry.UntilSuccessOrFail(t, func() error {
			got, err := clusterForA(connected)
			if err != nil {
				return err
			}
			if got != routedToB {
				return fmt.Errorf("connected proxy still routes to %q", got)
			}
			return nil
		}, retry.Timeout(10*time.Second), retry.Delay(10*time.Millisecond))
	}

	// --- P2 resumes and publishes B.
	releaseGate()
	retry.UntilSuccessOrFail(t, func() error {
		in, out := s.Discovery.InboundUpdates.Load(), s.Discovery.CommittedUpdates.Load()
		if out < in {
			return fmt.Errorf("committed %d < inbound %d", out, in)
		}
		return nil
	}, retry.Timeout(10*time.Second), retry.Delay(5*time.Millisecond))
	t.Logf("global PushContext after P1 and P2 both returned: version %s", s.Env().PushContext().PushVersion)

	// ---------------------------------------------------------------------------------------------
	// Assertion 1: the accepted VirtualService must be part of the current global snapshot, so a proxy
	// that connects now must be routed according to it.
	fresh := s.Connect(&model.Proxy{ID: "fresh.default", IPAddresses: []string{"10.9.0.2"}}, findingWatchAll, findingWatchAll)
	if got, err := clusterForA(fresh); err != nil || got != routedToB {
		t.Errorf("STALE SNAPSHOT: proxy connecting after both pushes completed routes a.example.com to %q (err=%v), "+
			"want %q: the global PushContext has lost VirtualService default/a-to-b", got, err, routedToB)
	}

	// Assertion 2: an already connected proxy must never be moved back to the older state. An unrelated
	// change (a DestinationRule for b.example.com) triggers an ordinary debounced push whose context is derived
	// incrementally from the global one.
	connected.WaitClear()
	if _, err := s.Store().Create(config.Config{
		Meta: config.Meta{GroupVersionKind: gvk.DestinationRule, Name: "b-dr", Namespace: "default"},
		Spec: &networking.DestinationRule{
			Host: "b.example.com",
			TrafficPolicy: &networking.TrafficPolicy{
				ConnectionPool: &networking.ConnectionPoolSettings{
					Tcp: &networking.ConnectionPoolSettings_TCPSettings{MaxConnections: 7},
				},
			},
		},
	}); err != nil {
		t.Fatal(err)
	}
	s.EnsureSynced(t)
	if _, err := connected.Wait(10*time.Second, v3.RouteType); err != nil {
		t.Logf("connected proxy received no RDS update for the DestinationRule change: %v", err)
	}
	if got, err := clusterForA(connected); err != nil || got != routedToB {
		t.Errorf("REVERTED: after an unrelated DestinationRule change the connected proxy routes a.example.com to %q (err=%v), "+
			"want %q: the push was derived from the stale global PushContext", got, err, routedToB)
	}
}
