// Copyright Istio Authors
//
// Licensed under the Apache License, Version 2.0 (the "License");
// you may not use this file except in compliance with the License.
// You may obtain a copy of the License at
//
//     http://www.apache.org/licenses/LICENSE-2.0
//
// Unless required by applicable law or agreed to in writing, software
// distributed under the License is distributed on an "AS IS" BASIS,
// WITHOUT WARRANTIES OR CONDITIONS OF ANY KIND, either express or implied.
// See the License for the specific language governing permissions and
// limitations under the License.

package xds_test

import (
	"fmt"
	"strings"
	"testing"

	endpoint "github.com/envoyproxy/go-control-plane/envoy/config/endpoint/v3"
	"google.golang.org/protobuf/proto"
	"k8s.io/apimachinery/pkg/runtime"

	meshconfig "istio.io/api/mesh/v1alpha1"
	"istio.io/istio/pilot/pkg/networking/util"
	"istio.io/istio/pilot/pkg/xds/endpoints"
	"istio.io/istio/pilot/test/xds"
	"istio.io/istio/pkg/cluster"
	"istio.io/istio/pkg/config"
	"istio.io/istio/pkg/config/mesh/meshwatcher"
	"istio.io/istio/pkg/test/util/retry"
)

// TestFindABNetworkGatewayEndpointOrder: the same east-west gateway address is known twice for network-1:
//   - statically, from meshNetworks (gateways: [{address: 2.2.2.2, port: 15443}]) - NetworkGateway.Cluster is ""
//   - from the registry of cluster-1, whose east-west gateway Service carries the usual
//     topology.istio.io/network label and has the very same load balancer IP - NetworkGateway.Cluster is "cluster-1"
//
// Both are distinct members of the NetworkGatewaySet (the set is keyed by the whole struct), and both are returned by
// GatewaysForNetwork("network-1"). An endpoint on network-1 that is not in cluster-1 (here: a WorkloadEntry style
// endpoint registered through a ServiceEntry, which belongs to the config cluster) is therefore spread over both,
// and EndpointsByNetworkFilter emits one LbEndpoint per gateway, each with its own cluster metadata.
//
// The ClusterLoadAssignment generated for the same proxy from the same push context must be byte-identical every time.
func TestFindABNetworkGatewayEndpointOrder(t *testing.T) {
	const gwIP = "2.2.2.2"
	meshNetworks := &meshconfig.MeshNetworks{Networks: map[string]*meshconfig.Network{
		"network-1": {
			Endpoints: []*meshconfig.Network_NetworkEndpoints{{
				Ne: &meshconfig.Network_NetworkEndpoints_FromRegistry{FromRegistry: "cluster-1"},
			}},
			Gateways: []*meshconfig.Network_IstioNetworkGateway{{
				Gw: &meshconfig.Network_IstioNetworkGateway_Address{Address: gwIP}, Port: 15443,
			}},
		},
	}}

	// a pod in cluster-1/network-1: reached through the cluster-1 gateway only
	pod := &workload{
		kind: Pod,
		name: "pod", namespace: "pod",
		ip: "10.10.10.10", port: 8080,
		metaNetwork: "network-1", clusterID: "cluster-1",
	}
	// a VM on network-1, registered in the config cluster: no gateway is known for (network-1, config cluster), so all
	// gateways of network-1 are used.
	target := &workload{
		kind: VirtualMachine,
		name: "vm-net1", namespace: "default",
		ip: "10.10.10.30", port: 9090,
		metaNetwork: "network-1",
	}
	// the client, on another network
	client := &workload{
		kind: VirtualMachine,
		name: "client", namespace: "default",
		ip: "10.20.20.20", port: 9090,
		metaNetwork: "network-2",
	}
	workloads := []*workload{pod, target, client}

	kubeObjects := map[cluster.ID][]runtime.Object{
		"cluster-1": {gatewaySvc("istio-eastwestgateway", gwIP, "network-1")},
	}
	var configObjects []config.Config
	for _, w := range workloads {
		k8sCluster, objs := w.kubeObjects()
		if k8sCluster != "" {
			kubeObjects[k8sCluster] = append(kubeObjects[k8sCluster], objs...)
		}
		configObjects = append(configObjects, w.configs()...)
	}
	s := xds.NewFakeDiscoveryServer(t, xds.FakeOptions{
		KubernetesObjectsByCluster: kubeObjects,
		Configs:                    configObjects,
		NetworksWatcher:            meshwatcher.NewFixedNetworksWatcher(meshNetworks),
	})
	for _, w := range workloads {
		w.setupProxy(s)
	}

	// Both gateways must be known (this is the precondition, not the defect).
	retry.UntilSuccessOrFail(t, func() error {
		gws := s.PushContext().NetworkManager().GatewaysForNetwork("network-1")
		if len(gws) != 2 {
			return fmt.Errorf("want 2 gateways for network-1, got %v", gws)
		}
		return nil
	})
	t.Logf("gateways for network-1: %+v", s.PushContext().NetworkManager().GatewaysForNetwork("network-1"))

	cn := target.clusterName("")
	describe := func(cla *endpoint.ClusterLoadAssignment) string {
		var out []string
		for _, l := range cla.GetEndpoints() {
			for _, ep := range l.GetLbEndpoints() {
				sa := ep.GetEndpoint().GetAddress().GetSocketAddress()
				out = append(out, fmt.Sprintf("%s:%d w=%d workload=%q",
					sa.GetAddress(), sa.GetPortValue(), ep.GetLoadBalancingWeight().GetValue(),
					ep.GetMetadata().GetFilterMetadata()[util.IstioMetadataKey].GetFields()["workload"].GetStringValue()))
			}
		}
		return strings.Join(out, " | ")
	}

	push := s.PushContext()
	const runs = 500
	seen := map[string]int{}
	var order []string
	bytesOf := map[string]string{}
	for i := 0; i < runs; i++ {
		b := endpoints.NewEndpointBuilder(cn, client.proxy, push)
		cla := b.BuildClusterLoadAssignment(s.Env().EndpointIndex)
		raw, err := proto.MarshalOptions{Deterministic: true}.Marshal(cla)
		if err != nil {
			t.Fatal(err)
		}
		d := describe(cla)
		if _, f := seen[string(raw)]; !f {
			order = append(order, string(raw))
			bytesOf[string(raw)] = d
		}
		seen[string(raw)]++
	}
	for i, k := range order {
		t.Logf("variant %d: %d/%d generations: %s", i, seen[k], runs, bytesOf[k])
	}
	if len(bytesOf[order[0]]) == 0 || strings.Count(bytesOf[order[0]], gwIP) != 2 {
		t.Fatalf("precondition: expected two gateway endpoints for %s, got %q", cn, bytesOf[order[0]])
	}
	if len(seen) != 1 {
		t.Fatalf("%s: %d distinct ClusterLoadAssignments over %d generations from the same push context, want 1", cn, len(seen), runs)
	}
}
