// Copyright Istio Authors
//
// Licensed under the Apache License, Version 2.0 (the "License");
// you may not use this file except in compliance with the License.
// You may obtain a copy of the License at
//
//     http://www.apache.org/licenses/LICENSE-2.0
//
// Unless required by applicable law or agreed to in writing, software
// distributed under the License is distributed on an "AS IS" BASIS,
// WITHOUT WARRANTIES OR CONDITIONS OF ANY KIND, either express or implied.
// See the License for the specific language governing permissions and
// limitations under the License.

package xds_test

import (
	"fmt"
	"sort"
	"strings"
	"testing"

	"google.golang.org/protobuf/proto"

	"istio.io/istio/pilot/pkg/model"
	"istio.io/istio/pilot/test/xdstest"
	"istio.io/istio/pkg/test/util/retry"
)

// TestFindABWaypointSameHostnameTwoNamespaces: two ServiceEntries in different namespaces declare the same host and
// both are attached to the same waypoint (istio.io/use-waypoint + istio.io/use-waypoint-namespace; the waypoint allows
// routes from all namespaces). The waypoint keeps one Service per hostname; which one must not depend on map order.
func TestFindABWaypointSameHostnameTwoNamespaces(t *testing.T) {
	waypointGatewayAllNamespaces := `apiVersion: gateway.networking.k8s.io/v1
kind: Gateway
metadata:
  name: waypoint
  namespace: default
spec:
  gatewayClassName: waypoint
  listeners:
    - name: mesh
      port: 15008
      protocol: HBONE
      allowedRoutes:
        namespaces:
          from: All
status:
  addresses:
  - type: Hostname
    value: waypoint.default.svc.cluster.local`

	// older
	teamA := `apiVersion: networking.istio.io/v1
kind: ServiceEntry
metadata:
  name: app
  namespace: team-a
  creationTimestamp: "2024-01-01T00:00:00Z"
  labels:
    istio.io/use-waypoint: waypoint
    istio.io/use-waypoint-namespace: default
spec:
  hosts: [app.com]
  addresses: [1.2.3.4]
  ports:
  - number: 80
    name: http
    protocol: HTTP
  resolution: STATIC`
	// newer
	teamB := `apiVersion: networking.istio.io/v1
kind: ServiceEntry
metadata:
  name: app
  namespace: team-b
  creationTimestamp: "2024-06-01T00:00:00Z"
  labels:
    istio.io/use-waypoint: waypoint
    istio.io/use-waypoint-namespace: default
spec:
  hosts: [app.com]
  addresses: [5.6.7.8]
  ports:
  - number: 80
    name: tcp
    protocol: TCP
  - number: 9090
    name: tcp-extra
    protocol: TCP
  resolution: STATIC`

	d, proxy := setupWaypointTest(t,
		waypointGatewayAllNamespaces, waypointSvc, waypointInstance,
		teamA, teamB)

	// Precondition (not the defect): both services are attached to the waypoint.
	retry.UntilSuccessOrFail(t, func() error {
		infos := d.PushContext().ServicesForWaypoint(model.WaypointKeyForProxy(proxy))
		var names []string
		for _, i := range infos {
			names = append(names, i.ResourceName())
		}
		sort.Strings(names)
		if strings.Join(names, ",") != "team-a/app.com,team-b/app.com" {
			return fmt.Errorf("services for waypoint: %v", names)
		}
		for _, ns := range []string{"team-a", "team-b"} {
			if d.PushContext().ServiceIndex.HostnameAndNamespace["app.com"][ns] == nil {
				return fmt.Errorf("app.com not indexed for namespace %s", ns)
			}
		}
		return nil
	})

	const runs = 300
	type variant struct {
		count int
		desc  string
	}
	check := func(t *testing.T, what string, gen func() ([]byte, string)) {
		seen := map[string]*variant{}
		var order []string
		for i := 0; i < runs; i++ {
			raw, desc := gen()
			v, f := seen[string(raw)]
			if !f {
				v = &variant{desc: desc}
				seen[string(raw)] = v
				order = append(order, string(raw))
			}
			v.count++
		}
		for i, k := range order {
			t.Logf("%s variant %d: %d/%d generations: %s", what, i, seen[k].count, runs, seen[k].desc)
		}
		if len(seen) != 1 {
			t.Errorf("%s: %d distinct outputs over %d generations of the same waypoint, want 1", what, len(seen), runs)
		}
	}

	marshal := proto.MarshalOptions{Deterministic: true}
	t.Run("listeners", func(t *testing.T) {
		check(t, "main_internal listener", func() ([]byte, string) {
			l := xdstest.ExtractListener("main_internal", d.Listeners(proxy))
			if l == nil {
				t.Fatal("main_internal listener not found")
			}
			raw, err := marshal.Marshal(l)
			if err != nil {
				t.Fatal(err)
			}
			var chains []string
			for _, fc := range l.GetFilterChains() {
				chains = append(chains, fc.GetName())
			}
			return raw, "filter chains " + strings.Join(chains, ", ")
		})
	})
	t.Run("clusters", func(t *testing.T) {
		check(t, "clusters", func() ([]byte, string) {
			var raw []byte
			var names []string
			for _, c := range d.Clusters(proxy) {
				b, err := marshal.Marshal(c)
				if err != nil {
					t.Fatal(err)
				}
				raw = append(raw, b...)
				names = append(names, c.GetName())
			}
			return raw, strings.Join(names, ", ")
		})
	})
}
