// Copyright Istio Authors
//
// Licensed under the Apache License, Version 2.0 (the "License");
// you may not use this file except in compliance with the License.
// You may obtain a copy of the License at
//
//     http://www.apache.org/licenses/LICENSE-2.0
//
// Unless required by applicable law or agreed to in writing, software
// distributed under the License is distributed on an "AS IS" BASIS,
// WITHOUT WARRANTIES OR CONDITIONS OF ANY KIND, either express or implied.
// See the License for the specific language governing permissions and
// limitations under the License.

package model_test

import (
	"fmt"
	"testing"

	"k8s.io/apimachinery/pkg/types"

	"istio.io/istio/pilot/pkg/model"
	"istio.io/istio/pkg/util/sets"
)

// TestFindABSortGatewaysTotalOrder: SortGateways is applied to the members of a NetworkGatewaySet (map iteration
// order); distinct members that share Addr and Port must still come out in one fixed order.
func TestFindABSortGatewaysTotalOrder(t *testing.T) {
	set := sets.New(
		model.NetworkGateway{Network: "network-1", Cluster: "", Addr: "2.2.2.2", Port: 15443},
		model.NetworkGateway{Network: "network-1", Cluster: "cluster-1", Addr: "2.2.2.2", Port: 15443},
		model.NetworkGateway{Network: "network-1", Cluster: "cluster-1", Addr: "2.2.2.2", Port: 15443, HBONEPort: 15008},
		model.NetworkGateway{Network: "network-2", Cluster: "cluster-1", Addr: "2.2.2.2", Port: 15443},
		model.NetworkGateway{
			Network: "network-1", Cluster: "cluster-1", Addr: "2.2.2.2", Port: 15443,
			ServiceAccount: types.NamespacedName{Namespace: "istio-system", Name: "eastwest"},
		},
		model.NetworkGateway{
			Network: "network-1", Cluster: "cluster-1", Addr: "2.2.2.2", Port: 15443,
			ServiceAccount: types.NamespacedName{Namespace: "istio-system", Name: "eastwest-2"},
		},
		model.NetworkGateway{Network: "network-1", Cluster: "cluster-1", Addr: "1.1.1.1", Port: 15443},
	)
	seen := sets.New[string]()
	for i := 0; i < 500; i++ {
		seen.Insert(fmt.Sprintf("%+v", model.SortGateways(set.UnsortedList())))
	}
	if len(seen) != 1 {
		t.Fatalf("SortGateways produced %d different orders for the same set of gateways, want 1", len(seen))
	}
}
