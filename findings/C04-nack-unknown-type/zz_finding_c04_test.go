package xds

import (
	"testing"

	discovery "github.com/envoyproxy/go-control-plane/envoy/service/discovery/v3"
	"google.golang.org/genproto/googleapis/rpc/status"

	"istio.io/istio/pilot/pkg/model"
	v3 "istio.io/istio/pilot/pkg/xds/v3"
	"istio.io/istio/pkg/spiffe"
	"istio.io/istio/pkg/util/sets"
	xdslib "istio.io/istio/pkg/xds"
)

// A NACK (error_detail set) for a type the proxy never subscribed to on this stream must be ignored, not crash.
func TestFindingNackForUnknownTypeSotW(t *testing.T) {
	proxy := &model.Proxy{ID: "p", WatchedResources: map[string]*model.WatchedResource{}}
	respond, _ := xdslib.ShouldRespond(proxy, "con-1", &discovery.DiscoveryRequest{
		TypeUrl:     v3.ClusterType,
		ErrorDetail: &status.Status{Code: 3, Message: "rejected"},
	})
	if respond {
		t.Fatalf("NACK must not be answered")
	}
}

func TestFindingNackForUnknownTypeDelta(t *testing.T) {
	con := newDeltaConnection("1.1.1.1", nil)
	con.proxy = &model.Proxy{ID: "p", WatchedResources: map[string]*model.WatchedResource{}}
	if shouldRespondDelta(con, &discovery.DeltaDiscoveryRequest{
		TypeUrl:     v3.ClusterType,
		ErrorDetail: &status.Status{Code: 3, Message: "rejected"},
	}) {
		t.Fatalf("NACK must not be answered")
	}
}

// A debug request whose single resource name is not a parsable URL must yield an error, not a crash.
func TestFindingDebugMalformedName(t *testing.T) {
	proxy := &model.Proxy{ID: "p", VerifiedIdentity: &spiffe.Identity{Namespace: "istio-system", ServiceAccount: "sa"}}
	dg := &DebugGen{SystemNamespace: "istio-system"}
	for _, name := range []string{"syncz%zz", "a\x7fb"} {
		w := &model.WatchedResource{TypeUrl: v3.DebugType, ResourceNames: sets.New(name)}
		_, _, err := dg.Generate(proxy, w, &model.PushRequest{})
		if err == nil {
			t.Fatalf("expected an error for malformed debug resource name %q", name)
		}
	}
}
