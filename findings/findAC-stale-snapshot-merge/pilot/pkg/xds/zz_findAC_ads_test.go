// Copyright Istio Authors
//
// Licensed under the Apache License, Version 2.0 (the "License");
// you may not use this file except in compliance with the License.
// You may obtain a copy of the License at
//
//     http://www.apache.org/licenses/LICENSE-2.0
//
// Unless required by applicable law or agreed to in writing, software
// distributed under the License is distributed on an "AS IS" BASIS,
// WITHOUT WARRANTIES OR CONDITIONS OF ANY KIND, either express or implied.
// See the License for the specific language governing permissions and
// limitations under the License.

package xds_test

import (
	"sync"
	"testing"
	"time"

	cluster "github.com/envoyproxy/go-control-plane/envoy/config/cluster/v3"
	discovery "github.com/envoyproxy/go-control-plane/envoy/service/discovery/v3"

	networking "istio.io/api/networking/v1alpha3"
	"istio.io/istio/pilot/pkg/model"
	"istio.io/istio/pilot/pkg/xds"
	v3 "istio.io/istio/pilot/pkg/xds/v3"
	xdsfake "istio.io/istio/pilot/test/xds"
	"istio.io/istio/pilot/test/xdstest"
	"istio.io/istio/pkg/config"
	"istio.io/istio/pkg/config/schema/gvk"
	"istio.io/istio/pkg/test/util/retry"
)

const (
	findACCluster = "outbound|80||findac.example.com"
	// set by the destination rule that makes the difference between push context v1 and v2
	findACMaxConnections = 42
)

// findACGate observes, and can hold, the pushes served to the connection, from inside pushConnection.
type findACGate struct {
	mu      sync.Mutex
	served  []*model.PushContext
	entered chan struct{}
	release chan struct{}
}

func (g *findACGate) proxyNeedsPush(proxy *model.Proxy, req *model.PushRequest) (*model.PushRequest, bool) {
	g.mu.Lock()
	g.served = append(g.served, req.Push)
	entered, release := g.entered, g.release
	g.entered, g.release = nil, nil
	g.mu.Unlock()
	if entered != nil {
		close(entered)
		<-release
	}
	return xds.DefaultProxyNeedsPush(proxy, req)
}

// holdNext makes the next push to the connection stop in pushConnection, until the returned release is closed.
func (g *findACGate) holdNext() (entered <-chan struct{}, release chan<- struct{}) {
	e, r := make(chan struct{}), make(chan struct{})
	g.mu.Lock()
	g.entered, g.release = e, r
	g.mu.Unlock()
	return e, r
}

func (g *findACGate) lastServed() *model.PushContext {
	g.mu.Lock()
	defer g.mu.Unlock()
	return g.served[len(g.served)-1]
}

func findACSetup(t *testing.T) (*xdsfake.FakeDiscoveryServer, *findACGate, *xds.AdsTest) {
	s := xdsfake.NewFakeDiscoveryServer(t, xdsfake.FakeOptions{Configs: []config.Config{{
		Meta: config.Meta{GroupVersionKind: gvk.ServiceEntry, Name: "findac", Namespace: "default"},
		Spec: &networking.ServiceEntry{
			Hosts:      []string{"findac.example.com"},
			Ports:      []*networking.ServicePort{{Number: 80, Name: "http", Protocol: "HTTP"}},
			Resolution: networking.ServiceEntry_STATIC,
			Endpoints:  []*networking.WorkloadEntry{{Address: "1.2.3.4"}},
		},
	}}})
	g := &findACGate{}
	// no connection yet: nothing reads the field
	s.Discovery.ProxyNeedsPush = g.proxyNeedsPush
	ads := s.ConnectADS().WithType(v3.ClusterType).WithTimeout(5 * time.Second)
	resp := ads.RequestResponseAck(t, nil)
	if findACHasDestinationRule(t, resp) {
		t.Fatalf("%s must not have the destination rule yet", findACCluster)
	}
	return s, g, ads
}

// findACProxyUpdateRequest builds the request exactly as DiscoveryServer.ProxyUpdate does (s.globalPushContext() is
// s.Env.PushContext()); ProxyUpdate passes it to pushQueue.Enqueue afterwards, and nothing orders the two steps
// against DiscoveryServer.Push.
func findACProxyUpdateRequest(s *xdsfake.FakeDiscoveryServer) *model.PushRequest {
	return &model.PushRequest{
		Push:   s.Discovery.Env.PushContext(),
		Start:  time.Now(),
		Reason: model.NewReasonStats(model.ProxyUpdate),
		Forced: true,
	}
}

// findACCommitNextSnapshot creates a destination rule (a single config event, hence a single push) and waits until
// DiscoveryServer.Push has committed the push context that contains it, and has fanned it out (enqueued it for every
// connection).
func findACCommitNextSnapshot(t *testing.T, s *xdsfake.FakeDiscoveryServer, old *model.PushContext) *model.PushContext {
	t.Helper()
	if _, err := s.Store().Create(config.Config{
		Meta: config.Meta{GroupVersionKind: gvk.DestinationRule, Name: "findac", Namespace: "default"},
		Spec: &networking.DestinationRule{
			Host: "findac.example.com",
			TrafficPolicy: &networking.TrafficPolicy{ConnectionPool: &networking.ConnectionPoolSettings{
				Tcp: &networking.ConnectionPoolSettings_TCPSettings{MaxConnections: findACMaxConnections},
			}},
		},
	}); err != nil {
		t.Fatal(err)
	}
	// CommittedUpdates is only increased once Push (commit and fan out) has returned
	retry.UntilOrFail(t, func() bool {
		return s.Discovery.Env.PushContext() != old && s.Discovery.CommittedUpdates.Load() >= s.Discovery.InboundUpdates.Load()
	}, retry.Timeout(5*time.Second), retry.Delay(time.Millisecond))
	return s.Discovery.Env.PushContext()
}

// findACHasDestinationRule tells whether the cluster in the response was built with the destination rule of v2.
func findACHasDestinationRule(t *testing.T, resp *discovery.DiscoveryResponse) bool {
	t.Helper()
	if resp.TypeUrl != v3.ClusterType {
		t.Fatalf("unexpected response type %v", resp.TypeUrl)
	}
	for _, r := range resp.Resources {
		if c := xdstest.UnmarshalAny[cluster.Cluster](t, r); c.Name == findACCluster {
			return c.GetCircuitBreakers().GetThresholds()[0].GetMaxConnections().GetValue() == findACMaxConnections
		}
	}
	t.Fatalf("%s not found", findACCluster)
	return false
}

func findACLastPushContext(t *testing.T, s *xdsfake.FakeDiscoveryServer) *model.PushContext {
	t.Helper()
	clients := s.Discovery.Clients()
	if len(clients) != 1 {
		t.Fatalf("expected one client, got %d", len(clients))
	}
	proxy := clients[0].Proxy()
	proxy.RLock()
	defer proxy.RUnlock()
	return proxy.LastPushContext
}

// ProxyUpdate reads the global push context v1; Push commits v2 and fans it out, but the request is not served yet;
// ProxyUpdate enqueues its request, which is merged into the pending one. The push that is then served must be on v2.
func TestFindACStaleProxyUpdateMergedIntoPendingPush(t *testing.T) {
	s, g, ads := findACSetup(t)
	v1 := s.Discovery.Env.PushContext()

	// Keep the connection busy: requests for it stay in the push queue and get merged.
	entered, release := g.holdNext()
	s.Discovery.AdsPushAll(&model.PushRequest{Push: v1, Reason: model.NewReasonStats(model.DebugTrigger), Forced: true})
	<-entered

	// ProxyUpdate, first step.
	proxyUpdate := findACProxyUpdateRequest(s)
	// Push: commit and fan out.
	v2 := findACCommitNextSnapshot(t, s, v1)
	// ProxyUpdate, second step: AdsPushAll -> StartPush does pushQueue.Enqueue(connection, req) for the only connection.
	s.Discovery.AdsPushAll(proxyUpdate)

	close(release)
	ads.ExpectResponse(t) // the push that kept the connection busy
	resp := ads.ExpectResponse(t)

	if got := g.lastServed(); got != v2 {
		t.Errorf("served push context %v, want v2 %v (v1 is %v)", got.PushVersion, v2.PushVersion, v1.PushVersion)
	}
	if !findACHasDestinationRule(t, resp) {
		t.Errorf("the proxy was sent %s without the destination rule, which is part of v2 and whose push request was fanned out to it", findACCluster)
	}
	ads.ExpectNoResponse(t)
	if got := findACLastPushContext(t, s); got != v2 {
		t.Errorf("the proxy is left on push context %v, want v2 %v (v1 is %v)", got.PushVersion, v2.PushVersion, v1.PushVersion)
	}
}

// ProxyUpdate reads the global push context v1; Push commits v2, fans it out and the proxy is pushed v2; ProxyUpdate
// enqueues its request. The proxy must stay on v2.
func TestFindACStaleProxyUpdateAfterPush(t *testing.T) {
	s, g, ads := findACSetup(t)
	v1 := s.Discovery.Env.PushContext()

	// ProxyUpdate, first step.
	proxyUpdate := findACProxyUpdateRequest(s)
	// Push: commit, fan out; the connection is pushed.
	v2 := findACCommitNextSnapshot(t, s, v1)
	if resp := ads.ExpectResponse(t); !findACHasDestinationRule(t, resp) {
		t.Fatalf("v2 does not have the destination rule for %s", findACCluster)
	}
	// ProxyUpdate, second step.
	s.Discovery.AdsPushAll(proxyUpdate)
	resp := ads.ExpectResponse(t)

	if got := g.lastServed(); got != v2 {
		t.Errorf("served push context %v, want v2 %v (v1 is %v)", got.PushVersion, v2.PushVersion, v1.PushVersion)
	}
	if !findACHasDestinationRule(t, resp) {
		t.Errorf("the destination rule for %s, which the proxy had been sent, was taken away again", findACCluster)
	}
	ads.ExpectNoResponse(t)
	if got := findACLastPushContext(t, s); got != v2 {
		t.Errorf("the proxy is left on push context %v, want v2 %v (v1 is %v)", got.PushVersion, v2.PushVersion, v1.PushVersion)
	}
}
