// Copyright Istio Authors
//
// Licensed under the Apache License, Version 2.0 (the "License");
// you may not use this file except in compliance with the License.
// You may obtain a copy of the License at
//
//     http://www.apache.org/licenses/LICENSE-2.0
//
// Unless required by applicable law or agreed to in writing, software
// distributed under the License is distributed on an "AS IS" BASIS,
// WITHOUT WARRANTIES OR CONDITIONS OF ANY KIND, either express or implied.
// See the License for the specific language governing permissions and
// limitations under the License.

package xds

import (
	"testing"
	"time"

	"istio.io/istio/pilot/pkg/model"
	"istio.io/istio/pkg/config/schema/kind"
	"istio.io/istio/pkg/util/sets"
)

// DiscoveryServer.ProxyUpdate reads the global push context (v1) and enqueues afterwards; DiscoveryServer.Push
// commits v2 and fans it out in between. The queue must hand out a request on v2.
func TestFindACPushQueueStaleProxyUpdate(t *testing.T) {
	// As DiscoveryServer.Push does for every push: create a push context and make it the global one.
	env := &model.Environment{}
	v1 := model.NewPushContext()
	env.SetPushContext(v1)
	v2 := model.NewPushContext()
	env.SetPushContext(v2)
	key := model.ConfigKey{Kind: kind.ServiceEntry, Name: "findac.example.com", Namespace: "default"}

	// exactly what ProxyUpdate builds; globalPushContext() returned v1
	proxyUpdate := &model.PushRequest{
		Push:   v1,
		Start:  time.Now(),
		Reason: model.NewReasonStats(model.ProxyUpdate),
		Forced: true,
	}
	// what Push -> AdsPushAll -> StartPush enqueues for every client
	configPush := &model.PushRequest{
		Push:           v2,
		Start:          time.Now(),
		ConfigsUpdated: sets.New(key),
		Reason:         model.NewReasonStats(model.ConfigUpdate),
	}

	check := func(t *testing.T, got *model.PushRequest) {
		t.Helper()
		if got.Push != v2 {
			t.Errorf("dequeued request carries push context %p, want the newest one, v2 %p (v1 is %p)", got.Push, v2, v1)
		}
		if !got.Forced || !got.ConfigsUpdated.Contains(key) {
			t.Errorf("dequeued request lost information: %+v", got)
		}
	}

	t.Run("pending", func(t *testing.T) {
		q := NewPushQueue()
		con := newConnection("", nil)
		q.Enqueue(con, configPush)
		q.Enqueue(con, proxyUpdate)
		_, got, _ := q.Dequeue()
		check(t, got)
	})

	t.Run("processing", func(t *testing.T) {
		q := NewPushQueue()
		con := newConnection("", nil)
		q.Enqueue(con, &model.PushRequest{Push: v1, Forced: true})
		q.Dequeue()
		// a push to the connection is in progress
		q.Enqueue(con, configPush)
		q.Enqueue(con, proxyUpdate)
		q.MarkDone(con)
		_, got, _ := q.Dequeue()
		check(t, got)
	})
}
