// Copyright Istio Authors
//
// Licensed under the Apache License, Version 2.0 (the "License");
// you may not use this file except in compliance with the License.
// You may obtain a copy of the License at
//
//     http://www.apache.org/licenses/LICENSE-2.0
//
// Unless required by applicable law or agreed to in writing, software
// distributed under the License is distributed on an "AS IS" BASIS,
// WITHOUT WARRANTIES OR CONDITIONS OF ANY KIND, either express or implied.
// See the License for the specific language governing permissions and
// limitations under the License.

package model

import (
	"testing"

	"istio.io/istio/pkg/config/schema/kind"
	"istio.io/istio/pkg/util/sets"
)

// A request is built (reading the global push context) and enqueued in two steps, so the order in which
// requests are merged is not the order of the push contexts they carry. Whatever the order, the merged
// request must not carry an older push context than either operand.
func TestFindACMergeNeverGoesBackToAnOlderPushContext(t *testing.T) {
	// As DiscoveryServer.Push does for every push: create a push context and make it the global one.
	env := &Environment{}
	v1 := NewPushContext()
	env.SetPushContext(v1)
	v2 := NewPushContext()
	env.SetPushContext(v2)
	key := ConfigKey{Kind: kind.ServiceEntry, Name: "findac.example.com", Namespace: "default"}

	// fanned out by DiscoveryServer.Push for v2
	configPush := func() *PushRequest {
		return &PushRequest{Push: v2, ConfigsUpdated: sets.New(key), Reason: NewReasonStats(ConfigUpdate)}
	}
	// built by DiscoveryServer.ProxyUpdate while v1 was still the global push context
	proxyUpdate := func() *PushRequest {
		return &PushRequest{Push: v1, Reason: NewReasonStats(ProxyUpdate), Forced: true}
	}
	noContext := func() *PushRequest {
		return &PushRequest{Reason: NewReasonStats(ProxyUpdate), Forced: true}
	}

	cases := []struct {
		name        string
		left, right func() *PushRequest
	}{
		{"older enqueued last", configPush, proxyUpdate},
		{"older enqueued first", proxyUpdate, configPush},
		{"no push context enqueued last", configPush, noContext},
		{"no push context enqueued first", noContext, configPush},
	}
	for _, tt := range cases {
		t.Run(tt.name, func(t *testing.T) {
			for name, got := range map[string]*PushRequest{
				"CopyMerge": tt.left().CopyMerge(tt.right()),
				"Merge":     tt.left().Merge(tt.right()),
			} {
				if got.Push != v2 {
					t.Errorf("%s: merged request carries push context %p, want the newest one, v2 %p (v1 is %p)", name, got.Push, v2, v1)
				}
				if !got.Forced || !got.ConfigsUpdated.Contains(key) || !got.Reason.Has(ProxyUpdate) || !got.Reason.Has(ConfigUpdate) {
					t.Errorf("%s: merged request lost information: %+v", name, got)
				}
			}
		})
	}
}
