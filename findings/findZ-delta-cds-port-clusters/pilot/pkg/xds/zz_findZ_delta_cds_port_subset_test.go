// Copyright Istio Authors
//
// Licensed under the Apache License, Version 2.0 (the "License");
// you may not use this file except in compliance with the License.
// You may obtain a copy of the License at
//
//     http://www.apache.org/licenses/LICENSE-2.0
//
// Unless required by applicable law or agreed to in writing, software
// distributed under the License is distributed on an "AS IS" BASIS,
// WITHOUT WARRANTIES OR CONDITIONS OF ANY KIND, either express or implied.
// See the License for the specific language governing permissions and
// limitations under the License.

package xds_test

import (
	"testing"
	"time"

	cluster "github.com/envoyproxy/go-control-plane/envoy/config/cluster/v3"
	discovery "github.com/envoyproxy/go-control-plane/envoy/service/discovery/v3"

	networking "istio.io/api/networking/v1alpha3"
	"istio.io/istio/pilot/test/xds"
	"istio.io/istio/pilot/test/xdstest"
	"istio.io/istio/pkg/config"
	"istio.io/istio/pkg/config/schema/gvk"
	"istio.io/istio/pkg/util/sets"
)

// TestFindZDeltaCDSPortRemovedWithSubsets connects a delta CDS client and a state-of-the-world CDS client to the same
// discovery server, removes a port from a service that has DestinationRule subsets, and requires that both clients
// end up holding the same clusters.
func TestFindZDeltaCDSPortRemovedWithSubsets(t *testing.T) {
	const hostname = "side.example.com"
	serviceEntry := func(ports ...uint32) config.Config {
		se := &networking.ServiceEntry{
			Hosts:      []string{hostname},
			Location:   networking.ServiceEntry_MESH_INTERNAL,
			Resolution: networking.ServiceEntry_STATIC,
			Endpoints:  []*networking.WorkloadEntry{{Address: "10.10.10.10", Labels: map[string]string{"version": "v1"}}},
		}
		for _, p := range ports {
			se.Ports = append(se.Ports, &networking.ServicePort{Number: p, Name: "http-" + string(rune('a'+len(se.Ports))), Protocol: "HTTP"})
		}
		return config.Config{
			Meta: config.Meta{GroupVersionKind: gvk.ServiceEntry, Name: "side", Namespace: "default"},
			Spec: se,
		}
	}
	s := xds.NewFakeDiscoveryServer(t, xds.FakeOptions{
		Configs: []config.Config{
			serviceEntry(80, 81),
			{
				Meta: config.Meta{GroupVersionKind: gvk.DestinationRule, Name: "side", Namespace: "default"},
				Spec: &networking.DestinationRule{
					Host:    hostname,
					Subsets: []*networking.Subset{{Name: "v1", Labels: map[string]string{"version": "v1"}}},
				},
			},
		},
	})
	s.EnsureSynced(t)

	// t0: both clients fetch the full state.
	deltaClient := s.ConnectDeltaADS().WithID("sidecar~1.1.1.1~delta.default~default.svc.cluster.local")
	deltaHeld := sets.New[string]()
	applyDelta := func(resp *discovery.DeltaDiscoveryResponse) {
		deltaHeld.DeleteAll(resp.RemovedResources...)
		for _, r := range resp.Resources {
			deltaHeld.Insert(r.Name)
		}
	}
	applyDelta(deltaClient.RequestResponseAck(&discovery.DeltaDiscoveryRequest{ResourceNamesSubscribe: []string{"*"}}))

	sotwClient := s.ConnectADS().WithID("sidecar~1.1.1.2~sotw.default~default.svc.cluster.local")
	sotwHeld := sets.New[string]()
	applySotw := func(resp *discovery.DiscoveryResponse) {
		sotwHeld = sets.New[string]()
		for _, r := range resp.Resources {
			sotwHeld.Insert(xdstest.UnmarshalAny[cluster.Cluster](t, r).Name)
		}
	}
	applySotw(sotwClient.RequestResponseAck(t, nil))

	want := []string{
		"outbound|80||" + hostname, "outbound|80|v1|" + hostname,
		"outbound|81||" + hostname, "outbound|81|v1|" + hostname,
	}
	if !deltaHeld.SupersetOf(sets.New(want...)) || !sotwHeld.SupersetOf(sets.New(want...)) {
		t.Fatalf("unexpected initial state: delta %v, sotw %v", sets.SortedList(deltaHeld), sets.SortedList(sotwHeld))
	}
	if !deltaHeld.Equals(sotwHeld) {
		t.Fatalf("clients differ initially: delta %v, sotw %v", sets.SortedList(deltaHeld), sets.SortedList(sotwHeld))
	}

	// t1: port 81 is removed from the service.
	if _, err := s.Store().Update(serviceEntry(80)); err != nil {
		t.Fatal(err)
	}

	resp := deltaClient.ExpectResponse()
	t.Logf("delta response: %d resources, removed %v", len(resp.Resources), resp.RemovedResources)
	applyDelta(resp)
	deltaClient.Request(&discovery.DeltaDiscoveryRequest{ResponseNonce: resp.Nonce})
	applySotw(sotwClient.ExpectResponse(t))
	// the clients must not be waiting for another push
	time.Sleep(200 * time.Millisecond)
	deltaClient.ExpectNoResponse()
	sotwClient.ExpectNoResponse(t)

	if sotwHeld.Contains("outbound|81||"+hostname) || sotwHeld.Contains("outbound|81|v1|"+hostname) {
		t.Fatalf("sotw client still has clusters for the removed port: %v", sets.SortedList(sotwHeld))
	}
	if !deltaHeld.Equals(sotwHeld) {
		t.Fatalf("delta client and state-of-the-world client diverge after the port removal:\n"+
			"  only the delta client holds: %v\n  only the sotw client holds:  %v",
			sets.SortedList(deltaHeld.Difference(sotwHeld)), sets.SortedList(sotwHeld.Difference(deltaHeld)))
	}
}
