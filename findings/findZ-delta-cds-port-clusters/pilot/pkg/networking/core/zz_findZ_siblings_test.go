// Copyright Istio Authors
//
// Licensed under the Apache License, Version 2.0 (the "License");
// you may not use this file except in compliance with the License.
// You may obtain a copy of the License at
//
//     http://www.apache.org/licenses/LICENSE-2.0
//
// Unless required by applicable law or agreed to in writing, software
// distributed under the License is distributed on an "AS IS" BASIS,
// WITHOUT WARRANTIES OR CONDITIONS OF ANY KIND, either express or implied.
// See the License for the specific language governing permissions and
// limitations under the License.

package core

import (
	"testing"

	networking "istio.io/api/networking/v1alpha3"
	"istio.io/istio/pilot/pkg/model"
	"istio.io/istio/pilot/test/xdstest"
	"istio.io/istio/pkg/config"
	"istio.io/istio/pkg/config/host"
	"istio.io/istio/pkg/config/protocol"
	"istio.io/istio/pkg/config/schema/gvk"
	"istio.io/istio/pkg/config/schema/kind"
	"istio.io/istio/pkg/util/sets"
)

// TestFindZSiblingDeltaClusters checks the sibling suspicions of the (host, port) overwrite in BuildDeltaClusters.
// Each case replays a two step history for a state-of-the-world CDS client and a delta CDS client and requires both
// to hold the same cluster names at the end. These cases are NOT covered by the servicePortClusters fix.
func TestFindZSiblingDeltaClusters(t *testing.T) {
	const hostname = "side.example.com"
	const proxyNamespace = "foo"
	type portSpec struct {
		port  int
		proto protocol.Instance
	}
	mkService := func(ports ...portSpec) *model.Service {
		svc := &model.Service{
			Hostname:   host.Name(hostname),
			Resolution: model.ClientSideLB,
			Attributes: model.ServiceAttributes{Namespace: TestServiceNamespace},
		}
		for _, p := range ports {
			svc.Ports = append(svc.Ports, &model.Port{Name: "p-" + string(rune('a'+len(svc.Ports))), Port: p.port, Protocol: p.proto})
		}
		return svc
	}
	sidecar := func(port uint32) config.Config {
		l := &networking.IstioEgressListener{Hosts: []string{"*/" + hostname}}
		if port != 0 {
			l.Port = &networking.SidecarPort{Number: port, Protocol: "HTTP", Name: "http"}
		}
		return config.Config{
			Meta: config.Meta{GroupVersionKind: gvk.Sidecar, Name: "default", Namespace: proxyNamespace},
			Spec: &networking.Sidecar{Egress: []*networking.IstioEgressListener{l}},
		}
	}
	sidecarOwnNamespaceOnly := config.Config{
		Meta: config.Meta{GroupVersionKind: gvk.Sidecar, Name: "default", Namespace: proxyNamespace},
		Spec: &networking.Sidecar{Egress: []*networking.IstioEgressListener{{Hosts: []string{proxyNamespace + "/*"}}}},
	}
	virtualService := func(port uint32) config.Config {
		return config.Config{
			Meta: config.Meta{GroupVersionKind: gvk.VirtualService, Name: "vs", Namespace: proxyNamespace},
			Spec: &networking.VirtualService{
				Hosts: []string{"route.example.com"},
				Http: []*networking.HTTPRoute{{
					Route: []*networking.HTTPRouteDestination{{
						Destination: &networking.Destination{Host: hostname, Port: &networking.PortSelector{Number: port}},
						Weight:      100,
					}},
				}},
			},
		}
	}

	dnsService := mkService(portSpec{80, protocol.HTTP}, portSpec{81, protocol.HTTP})
	dnsService.Resolution = model.DNSLB
	dnsService.MeshExternal = true
	dnsEndpoint := func(portName string, port uint32) *model.IstioEndpoint {
		return &model.IstioEndpoint{Addresses: []string{"backend.example.org"}, ServicePortName: portName, EndpointPort: port}
	}
	dfpService := func(proto protocol.Instance) *model.Service {
		svc := mkService(portSpec{80, protocol.HTTP}, portSpec{81, proto})
		svc.Hostname = "*.wild.example.com"
		svc.Resolution = model.DynamicDNS
		svc.MeshExternal = true
		return svc
	}

	cases := []struct {
		name          string
		services      []*model.Service
		nextServices  []*model.Service
		setup         func(cg *ConfigGenTest)
		next          func(cg *ConfigGenTest)
		configs       []config.Config
		nextConfigs   []config.Config
		configUpdated sets.Set[model.ConfigKey]
	}{
		{
			// (a) the port stays in service.Ports but no cluster is generated for it any more
			name:          "a: port protocol changes to UDP",
			services:      []*model.Service{mkService(portSpec{80, protocol.HTTP}, portSpec{81, protocol.HTTP})},
			nextServices:  []*model.Service{mkService(portSpec{80, protocol.HTTP}, portSpec{81, protocol.UDP})},
			configUpdated: sets.New(model.ConfigKey{Kind: kind.ServiceEntry, Name: hostname, Namespace: TestServiceNamespace}),
		},
		{
			// (a) the port stays in service.Ports, but its DNS cluster is not generated without endpoints
			name:     "a2: DNS service port loses its endpoints",
			services: []*model.Service{dnsService},
			setup: func(cg *ConfigGenTest) {
				cg.MemRegistry.SetEndpoints(hostname, TestServiceNamespace, []*model.IstioEndpoint{dnsEndpoint("p-a", 80), dnsEndpoint("p-b", 81)})
			},
			next: func(cg *ConfigGenTest) {
				cg.MemRegistry.SetEndpoints(hostname, TestServiceNamespace, []*model.IstioEndpoint{dnsEndpoint("p-a", 80)})
			},
			configUpdated: sets.New(model.ConfigKey{Kind: kind.ServiceEntry, Name: hostname, Namespace: TestServiceNamespace}),
		},
		{
			// (a) the port stays in service.Ports, but a dynamic forward proxy cluster is only generated for some protocols
			name:          "a3: wildcard DYNAMIC_DNS service port protocol changes to TCP",
			services:      []*model.Service{dfpService(protocol.HTTP)},
			nextServices:  []*model.Service{dfpService(protocol.TCP)},
			configUpdated: sets.New(model.ConfigKey{Kind: kind.ServiceEntry, Name: "*.wild.example.com", Namespace: TestServiceNamespace}),
		},
		{
			// (b) the Sidecar egress listener port selects another port of a service that stays in scope
			name:          "b1: sidecar egress listener port changes",
			services:      []*model.Service{mkService(portSpec{80, protocol.HTTP}, portSpec{81, protocol.HTTP})},
			configs:       []config.Config{sidecar(80)},
			nextConfigs:   []config.Config{sidecar(81)},
			configUpdated: sets.New(model.ConfigKey{Kind: kind.Sidecar, Name: "default", Namespace: proxyNamespace}),
		},
		{
			// (b) the Sidecar egress listener stops restricting the port of a service that stays in scope
			name:          "b2: sidecar egress listener port restriction dropped",
			services:      []*model.Service{mkService(portSpec{80, protocol.HTTP}, portSpec{81, protocol.HTTP})},
			configs:       []config.Config{sidecar(80)},
			nextConfigs:   []config.Config{sidecar(0)},
			configUpdated: sets.New(model.ConfigKey{Kind: kind.Sidecar, Name: "default", Namespace: proxyNamespace}),
		},
		{
			// (b) the service is only imported through a VirtualService destination, whose port changes
			name:          "b3: virtual service destination port changes",
			services:      []*model.Service{mkService(portSpec{80, protocol.HTTP}, portSpec{81, protocol.HTTP})},
			configs:       []config.Config{sidecarOwnNamespaceOnly, virtualService(80)},
			nextConfigs:   []config.Config{sidecarOwnNamespaceOnly, virtualService(81)},
			configUpdated: sets.New(model.ConfigKey{Kind: kind.VirtualService, Name: "vs", Namespace: proxyNamespace}),
		},
	}
	for _, tc := range cases {
		t.Run(tc.name, func(t *testing.T) {
			cg := NewConfigGenTest(t, TestOptions{Services: tc.services, Configs: tc.configs})
			if tc.setup != nil {
				tc.setup(cg)
				pc := model.NewPushContext()
				pc.InitContext(cg.env, nil, nil)
				cg.env.SetPushContext(pc)
			}
			proxy := cg.SetupProxy(&model.Proxy{
				IPAddresses:     []string{"127.0.0.1"},
				ConfigNamespace: proxyNamespace,
			})
			held := sets.New(xdstest.MapKeys(xdstest.ExtractClusters(cg.Clusters(proxy)))...)
			t.Logf("t0: %v", sets.SortedList(held))

			for _, svc := range tc.nextServices {
				cg.MemRegistry.AddService(svc)
			}
			if tc.next != nil {
				tc.next(cg)
			}
			if tc.nextConfigs != nil {
				applyConfigDiff(t, cg, tc.configs, tc.nextConfigs)
			}
			pc := model.NewPushContext()
			pc.InitContext(cg.env, nil, nil)
			cg.env.SetPushContext(pc)
			proxy.SetSidecarScope(pc)

			sotw := sets.New(xdstest.MapKeys(xdstest.ExtractClusters(cg.Clusters(proxy)))...)
			t.Logf("t1 sotw: %v", sets.SortedList(sotw))
			if sotw.Equals(held) {
				t.Fatalf("bad test: the history does not change the cluster set")
			}

			clusters, removed, usedDelta := cg.DeltaClusters(proxy, tc.configUpdated, &model.WatchedResource{ResourceNames: held.Copy()})
			if !usedDelta {
				t.Fatalf("bad test: delta generation was not used")
			}
			delta := held.Copy().DeleteAll(removed...)
			for _, c := range clusters {
				delta.Insert(c.Name)
			}
			t.Logf("t1 delta: removed %v, sent %v", removed, xdstest.MapKeys(xdstest.ExtractClusters(clusters)))
			if !delta.Equals(sotw) {
				t.Fatalf("delta client and state-of-the-world client diverge:\n"+
					"  only the delta client holds: %v\n  only the sotw client holds:  %v",
					sets.SortedList(delta.Difference(sotw)), sets.SortedList(sotw.Difference(delta)))
			}
		})
	}
}
