// Copyright Istio Authors
//
// Licensed under the Apache License, Version 2.0 (the "License");
// you may not use this file except in compliance with the License.
// You may obtain a copy of the License at
//
//     http://www.apache.org/licenses/LICENSE-2.0
//
// Unless required by applicable law or agreed to in writing, software
// distributed under the License is distributed on an "AS IS" BASIS,
// WITHOUT WARRANTIES OR CONDITIONS OF ANY KIND, either express or implied.
// See the License for the specific language governing permissions and
// limitations under the License.

package core

import (
	"testing"

	networking "istio.io/api/networking/v1alpha3"
	"istio.io/istio/pilot/pkg/model"
	"istio.io/istio/pilot/test/xdstest"
	"istio.io/istio/pkg/config"
	"istio.io/istio/pkg/config/host"
	"istio.io/istio/pkg/config/protocol"
	"istio.io/istio/pkg/config/schema/gvk"
	"istio.io/istio/pkg/config/schema/kind"
	"istio.io/istio/pkg/test/util/assert"
	"istio.io/istio/pkg/util/sets"
)

// TestFindZDeltaClustersPortRemovedWithSubsets replays the history
//
//	t0: service side.example.com has ports 80 and 81, a DestinationRule defines subset v1
//	t1: port 81 is removed from the service (service-only push)
//
// for a state-of-the-world CDS client and for a delta CDS client and requires that both end up
// holding the same set of cluster names.
func TestFindZDeltaClustersPortRemovedWithSubsets(t *testing.T) {
	const hostname = "side.example.com"
	mkService := func(ports ...int) *model.Service {
		svc := &model.Service{
			Hostname:     host.Name(hostname),
			Resolution:   model.ClientSideLB,
			MeshExternal: false,
			Attributes: model.ServiceAttributes{
				Namespace: TestServiceNamespace,
			},
		}
		for _, p := range ports {
			svc.Ports = append(svc.Ports, &model.Port{Name: "http-" + string(rune('a'+len(svc.Ports))), Port: p, Protocol: protocol.HTTP})
		}
		return svc
	}
	subsets := func(names ...string) []*networking.Subset {
		var out []*networking.Subset
		for _, n := range names {
			out = append(out, &networking.Subset{Name: n, Labels: map[string]string{"version": n}})
		}
		return out
	}

	cases := []struct {
		name    string
		subsets []string
	}{
		{name: "one subset", subsets: []string{"v1"}},
		{name: "two subsets", subsets: []string{"v1", "v2"}},
	}
	for _, tc := range cases {
		t.Run(tc.name, func(t *testing.T) {
			cg := NewConfigGenTest(t, TestOptions{
				Services: []*model.Service{mkService(80, 81)},
				Configs: []config.Config{{
					Meta: config.Meta{
						GroupVersionKind: gvk.DestinationRule,
						Name:             "side",
						Namespace:        TestServiceNamespace,
					},
					Spec: &networking.DestinationRule{Host: hostname, Subsets: subsets(tc.subsets...)},
				}},
			})
			proxy := cg.SetupProxy(&model.Proxy{
				IPAddresses:     []string{"127.0.0.1"},
				ConfigNamespace: "foo",
			})

			// t0: both kinds of client receive the full state. For a wildcard CDS watch the server records the
			// names it sent as the watched resource names, this is what BuildDeltaClusters is later given.
			held := sets.New(xdstest.MapKeys(xdstest.ExtractClusters(cg.Clusters(proxy)))...)
			for _, port := range []string{"80", "81"} {
				assert.Equal(t, held.Contains("outbound|"+port+"||"+hostname), true)
				for _, s := range tc.subsets {
					assert.Equal(t, held.Contains("outbound|"+port+"|"+s+"|"+hostname), true)
				}
			}

			// t1: port 81 is removed from the service.
			cg.MemRegistry.AddService(mkService(80))
			pc := model.NewPushContext()
			pc.InitContext(cg.env, nil, nil)
			cg.env.SetPushContext(pc)
			proxy.SetSidecarScope(pc)

			// state-of-the-world client: holds exactly what is generated now.
			sotw := sets.New(xdstest.MapKeys(xdstest.ExtractClusters(cg.Clusters(proxy)))...)

			// delta client: applies the removals and the upserts to what it held.
			clusters, removed, usedDelta := cg.DeltaClusters(proxy,
				sets.New(model.ConfigKey{Kind: kind.ServiceEntry, Name: hostname, Namespace: TestServiceNamespace}),
				&model.WatchedResource{ResourceNames: held.Copy()})
			assert.Equal(t, usedDelta, true)
			delta := held.Copy().DeleteAll(removed...)
			for _, c := range clusters {
				delta.Insert(c.Name)
			}

			t.Logf("removed: %v", removed)
			if !delta.Equals(sotw) {
				t.Fatalf("delta client and state-of-the-world client diverge after the port removal:\n"+
					"  only the delta client holds: %v\n  only the sotw client holds:  %v",
					sets.SortedList(delta.Difference(sotw)), sets.SortedList(sotw.Difference(delta)))
			}
		})
	}
}
