// Copyright Istio Authors
//
// Licensed under the Apache License, Version 2.0 (the "License");
// you may not use this file except in compliance with the License.
// You may obtain a copy of the License at
//
//     http://www.apache.org/licenses/LICENSE-2.0
//
// Unless required by applicable law or agreed to in writing, software
// distributed under the License is distributed on an "AS IS" BASIS,
// WITHOUT WARRANTIES OR CONDITIONS OF ANY KIND, either express or implied.
// See the License for the specific language governing permissions and
// limitations under the License.

package xds_test

import (
	"fmt"
	"testing"
	"time"

	route "github.com/envoyproxy/go-control-plane/envoy/config/route/v3"
	discovery "github.com/envoyproxy/go-control-plane/envoy/service/discovery/v3"
	"google.golang.org/protobuf/types/known/wrapperspb"

	meshconfig "istio.io/api/mesh/v1alpha1"
	"istio.io/istio/pilot/pkg/features"
	"istio.io/istio/pilot/pkg/model"
	pilotxds "istio.io/istio/pilot/pkg/xds"
	v3 "istio.io/istio/pilot/pkg/xds/v3"
	"istio.io/istio/pilot/test/xds"
	"istio.io/istio/pkg/config/mesh"
)

// The RDS cache must be invisible: a proxy must never be served a RouteConfiguration that was
// generated for a proxy whose relevant attributes differ. The per proxy ProxyConfig.proxyHeaders
// (proxy.istio.io/config annotation / ProxyConfig CR, delivered in node metadata PROXY_CONFIG)
// decides virtual_host.include_request_attempt_count and route.append_x_forwarded_host of the
// outbound sidecar routes, so two proxies that differ only there must not share a cache entry.

const findTConfig = `
apiVersion: networking.istio.io/v1
kind: ServiceEntry
metadata:
  name: findt
  namespace: testns
spec:
  hosts:
  - findt.example.com
  ports:
  - number: 80
    name: http
    protocol: HTTP
  resolution: DNS
  endpoints:
  - address: findt.example.com
---
apiVersion: networking.istio.io/v1
kind: VirtualService
metadata:
  name: findt
  namespace: testns
spec:
  hosts:
  - findt.example.com
  http:
  - rewrite:
      uri: /rewritten
    route:
    - destination:
        host: findt.example.com
`

// findTView is what of the route configuration depends on ProxyConfig.proxyHeaders.
type findTView struct {
	// include_request_attempt_count per virtual host name
	AttemptCount map[string]bool
	// append_x_forwarded_host per "vhost/route" name
	XForwardedHost map[string]bool
}

func (v findTView) String() string {
	return fmt.Sprintf("include_request_attempt_count=%v append_x_forwarded_host=%v", v.AttemptCount, v.XForwardedHost)
}

func findTProxyConfig(ph *meshconfig.ProxyConfig_ProxyHeaders) *model.NodeMetaProxyConfig {
	pc := mesh.DefaultProxyConfig()
	pc.ProxyHeaders = ph
	return (*model.NodeMetaProxyConfig)(pc)
}

// findTProxy is one connected sidecar in namespace testns subscribed to route "80".
type findTProxy struct {
	ads *pilotxds.AdsTest
	req *discovery.DiscoveryRequest
}

// findTConnect opens a NEW ads connection for the given proxy, asks for route "80" and acks.
func findTConnect(t *testing.T, s *xds.FakeDiscoveryServer, name string, ph *meshconfig.ProxyConfig_ProxyHeaders) (*findTProxy, findTView) {
	t.Helper()
	ip := map[string]string{"a": "10.2.0.1", "b": "10.2.0.2"}[name]
	ads := s.ConnectADS().
		WithType(v3.RouteType).
		WithTimeout(5 * time.Second).
		WithID(fmt.Sprintf("sidecar~%s~%s.testns~testns.svc.cluster.local", ip, name)).
		WithMetadata(model.NodeMetadata{
			Namespace:    "testns",
			IstioVersion: "1.29.0",
			ProxyConfig:  findTProxyConfig(ph),
		})
	p := &findTProxy{ads: ads, req: &discovery.DiscoveryRequest{ResourceNames: []string{"80"}}}
	resp := ads.RequestResponseAck(t, p.req)
	return p, findTParse(t, resp)
}

// findTPushed waits for the route pushed to the proxy after a config update and acks it.
func (p *findTProxy) findTPushed(t *testing.T) findTView {
	t.Helper()
	resp := p.ads.ExpectResponse(t)
	p.req.ResponseNonce = resp.Nonce
	p.req.VersionInfo = resp.VersionInfo
	p.ads.Request(t, p.req)
	return findTParse(t, resp)
}

func findTParse(t *testing.T, resp *discovery.DiscoveryResponse) findTView {
	t.Helper()
	if len(resp.Resources) != 1 {
		t.Fatalf("expected 1 route configuration, got %d", len(resp.Resources))
	}
	rc := &route.RouteConfiguration{}
	if err := resp.Resources[0].UnmarshalTo(rc); err != nil {
		t.Fatal(err)
	}
	view := findTView{AttemptCount: map[string]bool{}, XForwardedHost: map[string]bool{}}
	for _, vh := range rc.VirtualHosts {
		view.AttemptCount[vh.Name] = vh.IncludeRequestAttemptCount
		for i, r := range vh.Routes {
			if ra := r.GetRoute(); ra != nil {
				view.XForwardedHost[fmt.Sprintf("%s/%d", vh.Name, i)] = ra.AppendXForwardedHost
			}
		}
	}
	if len(view.AttemptCount) < 2 {
		t.Fatalf("expected the service virtual host and the catch all virtual host, got %v", view)
	}
	return view
}

func findTServer(t *testing.T) *xds.FakeDiscoveryServer {
	if !features.EnableRDSCaching {
		t.Skip("RDS caching is disabled")
	}
	return xds.NewFakeDiscoveryServer(t, xds.FakeOptions{ConfigString: findTConfig})
}

// findTScenario:
//  1. proxy "a" (proxyHeaders = warm) connects and subscribes to route "80"
//  2. a config push happens (only pushes carry a start time, so only they fill the cache);
//     a's route is generated and cached
//  3. proxy "b" - same namespace, same sidecar scope, proxyHeaders = ask - connects and asks for "80"
//  4. control: the cache is cleared and b reconnects, so that the very same request is generated
//
// It returns what a got in 2, what b got in 3 and what b got in 4. 3 and 4 must be the same.
func findTScenario(t *testing.T, warm, ask *meshconfig.ProxyConfig_ProxyHeaders) (a, b, bFresh findTView) {
	t.Helper()
	s := findTServer(t)

	pa, _ := findTConnect(t, s, "a", warm)
	s.Discovery.ConfigUpdate(&model.PushRequest{Forced: true})
	a = pa.findTPushed(t)
	if n := len(s.Discovery.Cache.Keys(model.RDSType)); n != 1 {
		t.Fatalf("expected the route of proxy a to be cached, got %d entries", n)
	}
	t.Logf("proxy a, generated (fills the cache):   %v", a)

	pb, b := findTConnect(t, s, "b", ask)
	t.Logf("proxy b, cache warmed by proxy a:       %v", b)
	pb.ads.Cleanup()

	s.Discovery.Cache.ClearAll()
	_, bFresh = findTConnect(t, s, "b", ask)
	t.Logf("proxy b, same request, cleared cache:   %v", bFresh)
	return a, b, bFresh
}

func findTAttemptCountDisabled() *meshconfig.ProxyConfig_ProxyHeaders {
	return &meshconfig.ProxyConfig_ProxyHeaders{
		AttemptCount: &meshconfig.ProxyConfig_ProxyHeaders_AttemptCount{Disabled: wrapperspb.Bool(true)},
	}
}

func findTXForwardedHostEnabled() *meshconfig.ProxyConfig_ProxyHeaders {
	return &meshconfig.ProxyConfig_ProxyHeaders{
		XForwardedHost: &meshconfig.ProxyConfig_ProxyHeaders_XForwardedHost{Enabled: wrapperspb.Bool(true)},
	}
}

func findTAll(m map[string]bool, want bool) bool {
	for _, v := range m {
		if v != want {
			return false
		}
	}
	return len(m) > 0
}

// proxy a (default proxyHeaders) warms route "80"; proxy b differs only by
// proxyHeaders.attemptCount.disabled=true and must get include_request_attempt_count=false.
func TestFindT_RDSCacheAttemptCount(t *testing.T) {
	t.Run("default warms, disabled asks", func(t *testing.T) {
		a, b, bFresh := findTScenario(t, nil, findTAttemptCountDisabled())
		if !findTAll(a.AttemptCount, true) {
			t.Fatalf("proxy a: expected include_request_attempt_count=true everywhere, got %v", a)
		}
		if !findTAll(bFresh.AttemptCount, false) {
			t.Fatalf("control broken: a fresh generation for b must give include_request_attempt_count=false, got %v", bFresh)
		}
		if !findTAll(b.AttemptCount, false) {
			t.Errorf("proxy b disabled the attempt count header but was served the route cached for proxy a:\n got   %v\n fresh %v", b, bFresh)
		}
	})
	t.Run("disabled warms, default asks", func(t *testing.T) {
		a, b, bFresh := findTScenario(t, findTAttemptCountDisabled(), nil)
		if !findTAll(a.AttemptCount, false) {
			t.Fatalf("proxy a: expected include_request_attempt_count=false everywhere, got %v", a)
		}
		if !findTAll(bFresh.AttemptCount, true) {
			t.Fatalf("control broken: a fresh generation for b must give include_request_attempt_count=true, got %v", bFresh)
		}
		if !findTAll(b.AttemptCount, true) {
			t.Errorf("proxy b has the default proxyHeaders but was served the route cached for proxy a:\n got   %v\n fresh %v", b, bFresh)
		}
	})
}

// same for proxyHeaders.xForwardedHost.enabled=true, which sets append_x_forwarded_host on the
// catch all route and on every virtual service route with a rewrite.
func TestFindT_RDSCacheXForwardedHost(t *testing.T) {
	t.Run("default warms, enabled asks", func(t *testing.T) {
		a, b, bFresh := findTScenario(t, nil, findTXForwardedHostEnabled())
		if !findTAll(a.XForwardedHost, false) {
			t.Fatalf("proxy a: expected append_x_forwarded_host=false everywhere, got %v", a)
		}
		if !findTAll(bFresh.XForwardedHost, true) {
			t.Fatalf("control broken: a fresh generation for b must give append_x_forwarded_host=true, got %v", bFresh)
		}
		if !findTAll(b.XForwardedHost, true) {
			t.Errorf("proxy b enabled x-forwarded-host but was served the route cached for proxy a:\n got   %v\n fresh %v", b, bFresh)
		}
	})
	t.Run("enabled warms, default asks", func(t *testing.T) {
		a, b, bFresh := findTScenario(t, findTXForwardedHostEnabled(), nil)
		if !findTAll(a.XForwardedHost, true) {
			t.Fatalf("proxy a: expected append_x_forwarded_host=true everywhere, got %v", a)
		}
		if !findTAll(bFresh.XForwardedHost, false) {
			t.Fatalf("control broken: a fresh generation for b must give append_x_forwarded_host=false, got %v", bFresh)
		}
		if !findTAll(b.XForwardedHost, false) {
			t.Errorf("proxy b has the default proxyHeaders but was served the route cached for proxy a:\n got   %v\n fresh %v", b, bFresh)
		}
	})
}

// two proxies whose proxyHeaders agree on everything that reaches the route configuration must
// still share one cache entry (the fix must neither make the route uncacheable nor split the
// cache on settings that only matter for listeners).
func TestFindT_RDSCacheStillShared(t *testing.T) {
	s := findTServer(t)
	pa, _ := findTConnect(t, s, "a", findTAttemptCountDisabled())
	phb := findTAttemptCountDisabled()
	// only reaches the http connection manager (LDS), never the route configuration
	phb.Server = &meshconfig.ProxyConfig_ProxyHeaders_Server{Value: "findt"}
	pb, _ := findTConnect(t, s, "b", phb)
	s.Discovery.ConfigUpdate(&model.PushRequest{Forced: true})
	a, b := pa.findTPushed(t), pb.findTPushed(t)
	if !findTAll(a.AttemptCount, false) || !findTAll(b.AttemptCount, false) {
		t.Fatalf("expected include_request_attempt_count=false for both, got\n a %v\n b %v", a, b)
	}
	if n := len(s.Discovery.Cache.Keys(model.RDSType)); n != 1 {
		t.Fatalf("expected one shared RDS cache entry, got %d", n)
	}
}
