// Copyright Istio Authors
//
// Licensed under the Apache License, Version 2.0 (the "License");
// you may not use this file except in compliance with the License.
// You may obtain a copy of the License at
//
//     http://www.apache.org/licenses/LICENSE-2.0
//
// Unless required by applicable law or agreed to in writing, software
// distributed under the License is distributed on an "AS IS" BASIS,
// WITHOUT WARRANTIES OR CONDITIONS OF ANY KIND, either express or implied.
// See the License for the specific language governing permissions and
// limitations under the License.

package xds

// C17 (map-order determinism) triage, site S6 (krt CollectionGenerator deltas), plus the helpers shared with the
// external test package (c17_maporder_test.go, sites S5 and S7).

import (
	"fmt"
	"sort"
	"strings"
	"testing"

	discovery "github.com/envoyproxy/go-control-plane/envoy/service/discovery/v3"
	"google.golang.org/protobuf/proto"
	"google.golang.org/protobuf/types/known/anypb"
	"google.golang.org/protobuf/types/known/wrapperspb"

	"istio.io/istio/pilot/pkg/model"
	"istio.io/istio/pkg/config/schema/kind"
	"istio.io/istio/pkg/kube/krt"
	"istio.io/istio/pkg/test"
	"istio.io/istio/pkg/util/sets"
)

const C17Generations = 300

func C17Names(res model.Resources) []string {
	out := make([]string, 0, len(res))
	for _, r := range res {
		out = append(out, r.Name)
	}
	return out
}

func C17Bytes(t test.Failer, res model.Resources) map[string]string {
	out := map[string]string{}
	for _, r := range res {
		b, err := proto.MarshalOptions{Deterministic: true}.Marshal(r)
		if err != nil {
			t.Fatal(err)
		}
		out[r.Name] = string(b)
	}
	return out
}

// c17Orders counts the distinct orders observed
type C17Orders map[string]int

func (o C17Orders) Add(names []string) { o[strings.Join(names, " , ")]++ }

func (o C17Orders) String() string {
	l := make([]string, 0, len(o))
	for k, n := range o {
		l = append(l, fmt.Sprintf("%4dx [%s]", n, k))
	}
	sort.Strings(l)
	return "\n    " + strings.Join(l, "\n    ")
}

// C17ReferencedSecretNames exposes the slice built by referencedSecrets (site S5) to the external test package.
func C17ReferencedSecretNames(proxy *model.Proxy, push *model.PushContext, watched sets.String) []string {
	var names []string
	for _, sr := range referencedSecrets(proxy, push, watched) {
		names = append(names, sr.Name)
	}
	return names
}

// C17PullSecrets runs referencedSecrets + GeneratePullSecrets exactly like EcdsGenerator.Generate does.
func C17PullSecrets(gen model.XdsResourceGenerator, proxy *model.Proxy, push *model.PushContext, watched sets.String) (map[string][]byte, error) {
	eg := gen.(*EcdsGenerator)
	sc, err := eg.secretController.ForCluster(proxy.Metadata.ClusterID)
	if err != nil {
		return nil, err
	}
	return eg.GeneratePullSecrets(proxy, referencedSecrets(proxy, push, watched), sc), nil
}

// ---------------------------------------------------------------------------------------------------------------------
// S6: krtxds.go CollectionGenerator.GenerateDeltas, `for k := range req.ConfigsUpdated`
// ---------------------------------------------------------------------------------------------------------------------

const c17TypeURL = "type.googleapis.com/test.C17"

func c17AgwProxy() *model.Proxy {
	return &model.Proxy{
		Type:     model.Agentgateway,
		Labels:   map[string]string{gatewayNameLabel: "gw"},
		Metadata: &model.NodeMetadata{Namespace: "default"},
	}
}

func c17DiscoveryResources(names ...string) []DiscoveryResource {
	var out []DiscoveryResource
	for _, n := range names {
		a, _ := anypb.New(wrapperspb.String("payload-" + n))
		out = append(out, DiscoveryResource{Resource: &discovery.Resource{Name: n, Resource: a}})
	}
	return out
}

// Incremental push (the flagged loop): some of the updated keys still exist (-> Resources), some are gone (-> RemovedResources).
// pushDeltaXds copies both lists verbatim into the DeltaDiscoveryResponse (delta.go: `Resources: res`, `resp.RemovedResources = deletedRes`).
func TestC17_S6_GenerateDeltasIncremental(t *testing.T) {
	gen := CollectionGenerator{Col: krt.NewStaticCollection(nil, c17DiscoveryResources("res-a", "res-b", "res-c", "res-d"))}
	updated := sets.New[model.ConfigKey]()
	for _, n := range []string{"res-a", "res-b", "res-c", "res-d", "gone-w", "gone-x", "gone-y", "gone-z"} {
		updated.Insert(model.ConfigKey{Kind: kind.TypeUrl, Name: n, Namespace: c17TypeURL})
	}
	req := &model.PushRequest{ConfigsUpdated: updated}
	w := &model.WatchedResource{TypeUrl: c17TypeURL, ResourceNames: sets.New("res-a", "res-b", "res-c", "res-d", "gone-w", "gone-x", "gone-y", "gone-z")}

	resOrders, delOrders := C17Orders{}, C17Orders{}
	var first map[string]string
	for i := 0; i < C17Generations; i++ {
		res, deletes, _, usedDelta, err := gen.GenerateDeltas(c17AgwProxy(), req, w)
		if err != nil || !usedDelta {
			t.Fatalf("unexpected result: usedDelta=%v err=%v", usedDelta, err)
		}
		if len(res) != 4 || len(deletes) != 4 {
			t.Fatalf("expected 4 resources and 4 deletes, got %v / %v", C17Names(res), deletes)
		}
		b := C17Bytes(t, res)
		if first == nil {
			first = b
		}
		for n := range b {
			if b[n] != first[n] {
				t.Fatalf("resource %s changed content", n)
			}
		}
		resOrders.Add(C17Names(res))
		delOrders.Add(deletes)
	}
	if len(resOrders) != 1 {
		t.Errorf("Resources of the delta response came in %d distinct orders over %d generations:%v", len(resOrders), C17Generations, resOrders)
	}
	if len(delOrders) != 1 {
		t.Errorf("RemovedResources of the delta response came in %d distinct orders over %d generations:%v", len(delOrders), C17Generations, delOrders)
	}
}

// ADJACENT to S6 (krtxds.go:233, the req.IsRequest() branch): the full response is c.Col.List(), and both the derived
// krt collection built by baseCollection (manyCollection.List) and the static collection return maps.Values(...) of
// their state, i.e. map order again. (The deletes of this branch ARE sorted: sets.SortedList(toDeleted).)
func TestC17_S6_Adjacent_GenerateDeltasFullRequest(t *testing.T) {
	stop := test.NewStop(t)
	src := krt.NewStaticCollection(nil, []string{"res-a", "res-b", "res-c", "res-d"}, krt.WithStop(stop))
	// same shape as baseCollection(): a derived collection of DiscoveryResource
	col := krt.NewCollection(src, func(ctx krt.HandlerContext, n string) *DiscoveryResource {
		return &c17DiscoveryResources(n)[0]
	}, krt.WithStop(stop))
	if !col.WaitUntilSynced(stop) {
		t.Fatal("collection did not sync")
	}
	gen := CollectionGenerator{Col: col}
	req := &model.PushRequest{Reason: model.NewReasonStats(model.ProxyRequest)}
	w := &model.WatchedResource{TypeUrl: c17TypeURL, ResourceNames: sets.New("stale-2", "stale-1", "stale-3")}
	resOrders, delOrders := C17Orders{}, C17Orders{}
	for i := 0; i < C17Generations; i++ {
		res, deletes, _, _, err := gen.GenerateDeltas(c17AgwProxy(), req, w)
		if err != nil {
			t.Fatal(err)
		}
		if len(res) != 4 {
			t.Fatalf("expected 4 resources, got %v", C17Names(res))
		}
		resOrders.Add(C17Names(res))
		delOrders.Add(deletes)
	}
	if len(delOrders) != 1 {
		t.Errorf("RemovedResources came in %d distinct orders:%v", len(delOrders), delOrders)
	}
	if len(resOrders) != 1 {
		t.Errorf("Resources of the full response came in %d distinct orders over %d generations:%v", len(resOrders), C17Generations, resOrders)
	}
}
