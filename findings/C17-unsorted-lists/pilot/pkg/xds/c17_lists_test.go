// Copyright Istio Authors
//
// Licensed under the Apache License, Version 2.0 (the "License");
// you may not use this file except in compliance with the License.
// You may obtain a copy of the License at
//
//     http://www.apache.org/licenses/LICENSE-2.0
//
// Unless required by applicable law or agreed to in writing, software
// distributed under the License is distributed on an "AS IS" BASIS,
// WITHOUT WARRANTIES OR CONDITIONS OF ANY KIND, either express or implied.
// See the License for the specific language governing permissions and
// limitations under the License.

package xds_test

// C17 (map-order determinism) triage for the "sets.Set.UnsortedList() handed on without sorting" sites
//
//	G1 rds.go:98       RdsGenerator.Generate           -> order of RouteConfigurations in the RDS response
//	G2 sds.go:139      SecretGen.Generate              -> order of Secrets in the SDS response
//	G3 workload.go:85  WorkloadGenerator.GenerateDeltas (wildcard)   -> RemovedResources (+ Resources) of the WDS delta response
//	G4 workload.go:191 WorkloadGenerator.generateDeltasOndemand      -> RemovedResources (+ Resources) of the WDS delta response
//
// Every test runs the REAL generator (taken from FakeDiscoveryServer.Discovery.Generators) pilotxds.C17Generations times
// for the same proxy on one fixed state, records the order of the resource names / removed names, and fails if more
// than one order is seen. The *OverADS tests do the same thing through the real gRPC handlers to show that nothing
// between the generator and the wire (pushXds / pushDeltaXds / sendDelta) re-sorts the lists.
//
// Helpers (C17Orders, C17Names, C17Bytes, C17Generations) live in c17_krtxds_test.go (package xds).

import (
	"fmt"
	"strings"
	"testing"
	"time"

	discovery "github.com/envoyproxy/go-control-plane/envoy/service/discovery/v3"
	"k8s.io/apimachinery/pkg/runtime"
	"k8s.io/client-go/kubernetes/fake"

	"istio.io/istio/pilot/pkg/model"
	pilotxds "istio.io/istio/pilot/pkg/xds"
	v3 "istio.io/istio/pilot/pkg/xds/v3"
	"istio.io/istio/pilot/test/xds"
	"istio.io/istio/pilot/test/xdstest"
	"istio.io/istio/pkg/config/constants"
	"istio.io/istio/pkg/kube"
	"istio.io/istio/pkg/spiffe"
	"istio.io/istio/pkg/test/util/assert"
	"istio.io/istio/pkg/util/sets"
	xdsserver "istio.io/istio/pkg/xds"
)

// c17StableContent fails if a resource with the same name has different (deterministically marshalled) bytes than in
// the first generation: the individual resources are stable, only their order is under test.
func c17StableContent(t *testing.T, first *map[string]string, res model.Resources, i int) {
	t.Helper()
	b := pilotxds.C17Bytes(t, res)
	if *first == nil {
		*first = b
		return
	}
	if len(b) != len(*first) {
		t.Fatalf("generation #%d: %d resources, generation #0 had %d", i, len(b), len(*first))
	}
	for n := range b {
		if b[n] != (*first)[n] {
			t.Fatalf("generation #%d: resource %s changed content", i, n)
		}
	}
}

// ---------------------------------------------------------------------------------------------------------------------
// G1: rds.go:98  BuildHTTPRoutes(proxy, req, w.ResourceNames.UnsortedList())
// ---------------------------------------------------------------------------------------------------------------------

var c17RDSPorts = []int{80, 7070, 8080, 9090}

// One HTTP ServiceEntry per port -> a sidecar watches the outbound route names "80", "7070", "8080", "9090".
func c17RDSSidecarConfig() (string, []string) {
	sb := &strings.Builder{}
	var routes []string
	for _, p := range c17RDSPorts {
		fmt.Fprintf(sb, `
---
apiVersion: networking.istio.io/v1
kind: ServiceEntry
metadata:
  name: se-%[1]d
  namespace: default
spec:
  hosts:
  - svc-%[1]d.example.com
  location: MESH_INTERNAL
  resolution: STATIC
  ports:
  - number: %[1]d
    name: http
    protocol: HTTP
  endpoints:
  - address: 10.0.0.%[2]d
`, p, p%250+1)
		routes = append(routes, fmt.Sprint(p))
	}
	return sb.String(), routes
}

func TestC17_G1_RDSSidecarRouteOrder(t *testing.T) {
	cfg, routes := c17RDSSidecarConfig()
	s := xds.NewFakeDiscoveryServer(t, xds.FakeOptions{ConfigString: cfg})
	proxy := s.SetupProxy(&model.Proxy{ConfigNamespace: "default"})
	gen := s.Discovery.Generators[v3.RouteType]
	w := &model.WatchedResource{TypeUrl: v3.RouteType, ResourceNames: sets.New(routes...)}
	req := &model.PushRequest{Forced: true, Push: s.PushContext(), Start: time.Now()}

	orders := pilotxds.C17Orders{}
	var first map[string]string
	for i := 0; i < pilotxds.C17Generations; i++ {
		res, _, err := gen.Generate(proxy, w, req)
		if err != nil {
			t.Fatal(err)
		}
		if len(res) != len(routes) {
			t.Fatalf("expected %d RouteConfigurations, got %v", len(routes), pilotxds.C17Names(res))
		}
		if first == nil {
			// sanity: real, non-empty route configurations
			for _, rc := range xdstest.UnmarshalRouteConfiguration(t, xdsserver.ResourcesToAny(res)) {
				if len(rc.VirtualHosts) < 2 { // svc-<port>.example.com + allow_any/block_all
					t.Fatalf("route %s has only %d virtual hosts", rc.Name, len(rc.VirtualHosts))
				}
			}
		}
		c17StableContent(t, &first, res, i)
		orders.Add(pilotxds.C17Names(res))
	}
	if len(orders) != 1 {
		t.Errorf("RDS response for the same sidecar/state listed its RouteConfigurations in %d distinct orders over %d generations:%v",
			len(orders), pilotxds.C17Generations, orders)
	}
}

// Router (gateway) branch of BuildHTTPRoutes: one Gateway with an HTTP server per port -> route names "http.<port>".
func TestC17_G1_RDSGatewayRouteOrder(t *testing.T) {
	sb := &strings.Builder{}
	sb.WriteString(`
apiVersion: networking.istio.io/v1
kind: Gateway
metadata:
  name: gw
  namespace: istio-system
spec:
  selector:
    istio: ingressgateway
  servers:`)
	var routes []string
	for _, p := range c17RDSPorts {
		fmt.Fprintf(sb, `
  - port:
      number: %[1]d
      name: http-%[1]d
      protocol: HTTP
    hosts:
    - "host-%[1]d.example.com"`, p)
		routes = append(routes, fmt.Sprintf("http.%d", p))
	}
	sb.WriteString(`
---
apiVersion: networking.istio.io/v1
kind: VirtualService
metadata:
  name: vs
  namespace: istio-system
spec:
  hosts: ["*.example.com"]
  gateways: ["gw"]
  http:
  - route:
    - destination:
        host: backend.example.com
`)
	s := xds.NewFakeDiscoveryServer(t, xds.FakeOptions{ConfigString: sb.String()})
	proxy := s.SetupProxy(&model.Proxy{
		Type:            model.Router,
		ConfigNamespace: "istio-system",
		Labels:          map[string]string{"istio": "ingressgateway"},
		Metadata:        &model.NodeMetadata{Namespace: "istio-system", Labels: map[string]string{"istio": "ingressgateway"}},
	})
	gen := s.Discovery.Generators[v3.RouteType]
	w := &model.WatchedResource{TypeUrl: v3.RouteType, ResourceNames: sets.New(routes...)}
	req := &model.PushRequest{Forced: true, Push: s.PushContext(), Start: time.Now()}

	orders := pilotxds.C17Orders{}
	var first map[string]string
	for i := 0; i < pilotxds.C17Generations; i++ {
		res, _, err := gen.Generate(proxy, w, req)
		if err != nil {
			t.Fatal(err)
		}
		if len(res) != len(routes) {
			t.Fatalf("expected %d RouteConfigurations, got %v", len(routes), pilotxds.C17Names(res))
		}
		if first == nil {
			for _, rc := range xdstest.UnmarshalRouteConfiguration(t, xdsserver.ResourcesToAny(res)) {
				if len(rc.VirtualHosts) == 0 || len(rc.VirtualHosts[0].Routes) == 0 {
					t.Fatalf("gateway route %s is empty: the Gateway/VirtualService was not selected", rc.Name)
				}
			}
		}
		c17StableContent(t, &first, res, i)
		orders.Add(pilotxds.C17Names(res))
	}
	if len(orders) != 1 {
		t.Errorf("RDS response for the same gateway/state listed its RouteConfigurations in %d distinct orders over %d generations:%v",
			len(orders), pilotxds.C17Generations, orders)
	}
}

// The same on the wire (SotW): N fresh ADS streams of the same node ask for the same routes, always in the same order
// in the request, and must receive the same DiscoveryResponse.Resources list (pushXds copies the generator output).
func TestC17_G1_RDSOverADS(t *testing.T) {
	cfg, routes := c17RDSSidecarConfig()
	s := xds.NewFakeDiscoveryServer(t, xds.FakeOptions{ConfigString: cfg})
	orders := pilotxds.C17Orders{}
	const streams = 40
	for i := 0; i < streams; i++ {
		ads := s.ConnectADS().WithType(v3.RouteType)
		resp := ads.RequestResponseAck(t, &discovery.DiscoveryRequest{ResourceNames: routes})
		var names []string
		for _, rc := range xdstest.UnmarshalRouteConfiguration(t, resp.Resources) {
			names = append(names, rc.Name)
		}
		if len(names) != len(routes) {
			t.Fatalf("expected %d resources, got %v", len(routes), names)
		}
		orders.Add(names)
		ads.Cleanup()
	}
	if len(orders) != 1 {
		t.Errorf("RDS DiscoveryResponse for the same node and request listed its resources in %d distinct orders over %d streams:%v",
			len(orders), streams, orders)
	}
}

// ---------------------------------------------------------------------------------------------------------------------
// G2: sds.go:139  s.parseResources(w.ResourceNames.UnsortedList(), proxy)
// ---------------------------------------------------------------------------------------------------------------------

func TestC17_G2_SDSSecretOrder(t *testing.T) {
	s := xds.NewFakeDiscoveryServer(t, xds.FakeOptions{
		KubernetesObjects: []runtime.Object{genericCert, genericMtlsCert, simpleCaCert, genericMtlsCertSplit, genericMtlsCertSplitCa},
		KubeClientModifier: func(c kube.Client) {
			xds.DisableAuthorizationForSecret(c.Kube().(*fake.Clientset))
		},
	})
	gen := s.Discovery.Generators[v3.SecretType]
	// an authorized gateway in the namespace of the secrets, exactly like TestGenerateSDS/TestCaching
	proxy := s.SetupProxy(&model.Proxy{
		Metadata:         &model.NodeMetadata{ClusterID: constants.DefaultClusterName},
		VerifiedIdentity: &spiffe.Identity{Namespace: "istio-system"},
		Type:             model.Router,
		ConfigNamespace:  "istio-system",
	})
	names := []string{
		"kubernetes://generic", "kubernetes://generic-mtls", "kubernetes://generic-mtls-cacert",
		"kubernetes://ca-only-cacert", "kubernetes://generic-mtls-split",
	}
	w := &model.WatchedResource{TypeUrl: v3.SecretType, ResourceNames: sets.New(names...)}
	req := &model.PushRequest{Forced: true, Start: time.Now(), Push: s.PushContext()}

	orders := pilotxds.C17Orders{}
	var first map[string]string
	for i := 0; i < pilotxds.C17Generations; i++ {
		res, _, err := gen.Generate(proxy, w, req)
		if err != nil {
			t.Fatal(err)
		}
		if len(res) != len(names) {
			t.Fatalf("expected %d secrets, got %v", len(names), pilotxds.C17Names(res))
		}
		if first == nil {
			for _, sec := range xdstest.ExtractTLSSecrets(t, xdsserver.ResourcesToAny(res)) {
				if sec.GetTlsCertificate() == nil && sec.GetValidationContext() == nil {
					t.Fatalf("secret %s is empty", sec.Name)
				}
			}
		}
		c17StableContent(t, &first, res, i)
		var short []string
		for _, n := range pilotxds.C17Names(res) {
			short = append(short, strings.TrimPrefix(n, "kubernetes://"))
		}
		orders.Add(short)
	}
	if len(orders) != 1 {
		t.Errorf("SDS response for the same gateway/state listed its Secrets in %d distinct orders over %d generations:%v",
			len(orders), pilotxds.C17Generations, orders)
	}
}

// ---------------------------------------------------------------------------------------------------------------------
// G3 / G4: workload.go  WorkloadGenerator.GenerateDeltas / generateDeltasOndemand
// ---------------------------------------------------------------------------------------------------------------------

var (
	c17PodNames = []string{"alpha", "bravo", "charlie", "delta"}
	// client-side state that does not exist (any more) on the server
	c17StaleUIDs = []string{"Kubernetes//Pod/default/gone-w", "Kubernetes//Pod/default/gone-x", "Kubernetes//Pod/default/gone-y", "Kubernetes//Pod/default/gone-z"}
	c17StaleIPs  = []string{"/10.9.9.1", "/10.9.9.2", "/10.9.9.3", "/10.9.9.4"}
)

func c17PodUID(n string) string { return "Kubernetes//Pod/default/" + n }
func c17PodIP(i int) string     { return fmt.Sprintf("10.0.0.%d", i+1) }

// Four ambient pods; returns the server, the real WorkloadGenerator and the pod UIDs / "network/ip" keys.
func c17WorkloadServer(t *testing.T) (*xds.FakeDiscoveryServer, model.XdsDeltaResourceGenerator, []string, []string) {
	var objs []runtime.Object
	var uids, ips []string
	for i, n := range c17PodNames {
		objs = append(objs, mkPod(n, "sa", c17PodIP(i), "some-node"))
		uids = append(uids, c17PodUID(n))
		ips = append(ips, "/"+c17PodIP(i))
	}
	s := xds.NewFakeDiscoveryServer(t, xds.FakeOptions{KubernetesObjects: objs})
	assert.EventuallyEqual(t, func() int { return len(s.AmbientIndex.All()) }, len(c17PodNames))
	gen := s.Discovery.Generators[v3.AddressType].(model.XdsDeltaResourceGenerator)
	return s, gen, uids, ips
}

func c17ShortUIDs(names []string) []string {
	out := make([]string, 0, len(names))
	for _, n := range names {
		out = append(out, strings.TrimPrefix(n, "Kubernetes//Pod/default/"))
	}
	return out
}

type c17DeltaCase struct {
	what string
	// fresh request and watched resource for every generation: generateDeltasOndemand merges into both
	mk                      func() (*model.PushRequest, *model.WatchedResource)
	wantRes, wantRemoved    int
	checkRes, checkRemoved  bool
	resOrders, removeOrders pilotxds.C17Orders
}

func c17RunDeltas(t *testing.T, s *xds.FakeDiscoveryServer, gen model.XdsDeltaResourceGenerator, c *c17DeltaCase) {
	t.Helper()
	proxy := &model.Proxy{Type: model.Ztunnel, Metadata: &model.NodeMetadata{}}
	c.resOrders, c.removeOrders = pilotxds.C17Orders{}, pilotxds.C17Orders{}
	var first map[string]string
	for i := 0; i < pilotxds.C17Generations; i++ {
		req, w := c.mk()
		req.Push = s.PushContext()
		res, removed, _, usedDelta, err := gen.GenerateDeltas(proxy, req, w)
		if err != nil || !usedDelta {
			t.Fatalf("%s: usedDelta=%v err=%v", c.what, usedDelta, err)
		}
		if len(res) != c.wantRes || len(removed) != c.wantRemoved {
			t.Fatalf("%s: expected %d resources and %d removed names, got %v / %v", c.what, c.wantRes, c.wantRemoved, pilotxds.C17Names(res), removed)
		}
		c17StableContent(t, &first, res, i)
		c.resOrders.Add(c17ShortUIDs(pilotxds.C17Names(res)))
		c.removeOrders.Add(c17ShortUIDs(removed))
	}
	if c.checkRemoved && len(c.removeOrders) != 1 {
		t.Errorf("%s: RemovedResources came in %d distinct orders over %d generations:%v",
			c.what, len(c.removeOrders), pilotxds.C17Generations, c.removeOrders)
	}
	if c.checkRes && len(c.resOrders) != 1 {
		t.Errorf("%s: Resources came in %d distinct orders over %d generations:%v",
			c.what, len(c.resOrders), pilotxds.C17Generations, c.resOrders)
	}
}

// G3 (a), removed names: wildcard client (ztunnel) reconnects and reports four resources it still holds but that are gone on the
// server (processDeltaRequest puts the keys of initial_resource_versions into req.Delta.Subscribed).
// removed = Subscribed.Difference(have) -> removed.UnsortedList()   (workload.go:77, :85)
func TestC17_G3_WildcardRequest_RemovedOrder(t *testing.T) {
	s, gen, _, _ := c17WorkloadServer(t)
	c17RunDeltas(t, s, gen, &c17DeltaCase{
		what: "wildcard reconnect request",
		mk: func() (*model.PushRequest, *model.WatchedResource) {
			return &model.PushRequest{
					Forced: true,
					Reason: model.NewReasonStats(model.ProxyRequest),
					Delta:  model.ResourceDelta{Subscribed: sets.New(c17StaleUIDs...)},
				},
				&model.WatchedResource{TypeUrl: v3.AddressType, Wildcard: true}
		},
		wantRes: 4, wantRemoved: 4, checkRemoved: true,
	})
}

// G3 (a), resources of the same response: AddressInformation(nil) -> index.All() -> krt Collection.List() = maps.Values.
func TestC17_G3_WildcardRequest_ResourceOrder(t *testing.T) {
	s, gen, _, _ := c17WorkloadServer(t)
	c17RunDeltas(t, s, gen, &c17DeltaCase{
		what: "wildcard reconnect request",
		mk: func() (*model.PushRequest, *model.WatchedResource) {
			return &model.PushRequest{
					Forced: true,
					Reason: model.NewReasonStats(model.ProxyRequest),
					Delta:  model.ResourceDelta{Subscribed: sets.New(c17StaleUIDs...)},
				},
				&model.WatchedResource{TypeUrl: v3.AddressType, Wildcard: true}
		},
		wantRes: 4, wantRemoved: 4, checkRes: true,
	})
}

// G3 (b): wildcard client, server-side push with AddressesUpdated = four live pods + four deleted pods.
// AddressInformation ranges over the AddressesUpdated set: both lists come out in map order.
func TestC17_G3_WildcardPush_RemovedOrder(t *testing.T) {
	s, gen, uids, _ := c17WorkloadServer(t)
	c17RunDeltas(t, s, gen, &c17DeltaCase{
		what: "wildcard push",
		mk: func() (*model.PushRequest, *model.WatchedResource) {
			return &model.PushRequest{
					Reason:           model.NewReasonStats(model.AmbientUpdate),
					AddressesUpdated: sets.New(append(append([]string{}, uids...), c17StaleUIDs...)...),
				},
				&model.WatchedResource{TypeUrl: v3.AddressType, Wildcard: true}
		},
		wantRes: 4, wantRemoved: 4, checkRemoved: true,
	})
}

func TestC17_G3_WildcardPush_ResourceOrder(t *testing.T) {
	s, gen, uids, _ := c17WorkloadServer(t)
	c17RunDeltas(t, s, gen, &c17DeltaCase{
		what: "wildcard push",
		mk: func() (*model.PushRequest, *model.WatchedResource) {
			return &model.PushRequest{
					Reason:           model.NewReasonStats(model.AmbientUpdate),
					AddressesUpdated: sets.New(append(append([]string{}, uids...), c17StaleUIDs...)...),
				},
				&model.WatchedResource{TypeUrl: v3.AddressType, Wildcard: true}
		},
		wantRes: 4, wantRemoved: 4, checkRes: true,
	})
}

// G4 (a): on-demand client subscribes to four addresses that exist and four that do not.
func c17OndemandRequest(ips []string) func() (*model.PushRequest, *model.WatchedResource) {
	return func() (*model.PushRequest, *model.WatchedResource) {
		all := append(append([]string{}, ips...), c17StaleIPs...)
		return &model.PushRequest{
				Forced: true,
				Reason: model.NewReasonStats(model.ProxyRequest),
				Delta:  model.ResourceDelta{Subscribed: sets.New(all...)},
			},
			// shouldRespondDelta has already recorded the subscription
			&model.WatchedResource{TypeUrl: v3.AddressType, Wildcard: false, ResourceNames: sets.New(all...)}
	}
}

func TestC17_G4_OndemandRequest_RemovedOrder(t *testing.T) {
	s, gen, _, ips := c17WorkloadServer(t)
	c17RunDeltas(t, s, gen, &c17DeltaCase{what: "on-demand request", mk: c17OndemandRequest(ips), wantRes: 4, wantRemoved: 4, checkRemoved: true})
}

func TestC17_G4_OndemandRequest_ResourceOrder(t *testing.T) {
	s, gen, _, ips := c17WorkloadServer(t)
	c17RunDeltas(t, s, gen, &c17DeltaCase{what: "on-demand request", mk: c17OndemandRequest(ips), wantRes: 4, wantRemoved: 4, checkRes: true})
}

// G4 (b): on-demand client already subscribed to eight pods; a push reports all eight as updated, four of them deleted.
func c17OndemandPush(uids []string) func() (*model.PushRequest, *model.WatchedResource) {
	return func() (*model.PushRequest, *model.WatchedResource) {
		all := append(append([]string{}, uids...), c17StaleUIDs...)
		return &model.PushRequest{
				Reason:           model.NewReasonStats(model.AmbientUpdate),
				AddressesUpdated: sets.New(all...),
			},
			&model.WatchedResource{TypeUrl: v3.AddressType, Wildcard: false, ResourceNames: sets.New(all...)}
	}
}

func TestC17_G4_OndemandPush_RemovedOrder(t *testing.T) {
	s, gen, uids, _ := c17WorkloadServer(t)
	c17RunDeltas(t, s, gen, &c17DeltaCase{what: "on-demand push", mk: c17OndemandPush(uids), wantRes: 4, wantRemoved: 4, checkRemoved: true})
}

func TestC17_G4_OndemandPush_ResourceOrder(t *testing.T) {
	s, gen, uids, _ := c17WorkloadServer(t)
	c17RunDeltas(t, s, gen, &c17DeltaCase{what: "on-demand push", mk: c17OndemandPush(uids), wantRes: 4, wantRemoved: 4, checkRes: true})
}

// G4, the early returns at workload.go:170 / :173: nothing to order there (no resources, nil removed names).
func TestC17_G4_OndemandEarlyReturns_Control(t *testing.T) {
	s, gen, _, _ := c17WorkloadServer(t)
	proxy := &model.Proxy{Type: model.Ztunnel, Metadata: &model.NodeMetadata{}}
	for i := 0; i < 50; i++ {
		// :170 request with an empty subscription
		res, removed, _, _, err := gen.GenerateDeltas(proxy,
			&model.PushRequest{Push: s.PushContext(), Forced: true, Reason: model.NewReasonStats(model.ProxyRequest)},
			&model.WatchedResource{TypeUrl: v3.AddressType, ResourceNames: sets.New[string]()})
		if err != nil || res == nil || len(res) != 0 || removed != nil {
			t.Fatalf(":170 expected (empty, nil), got %v / %v / %v", res, removed, err)
		}
		// :173 push that does not intersect the subscription
		res, removed, _, _, err = gen.GenerateDeltas(proxy,
			&model.PushRequest{Push: s.PushContext(), Reason: model.NewReasonStats(model.AmbientUpdate), AddressesUpdated: sets.New(c17StaleUIDs...)},
			&model.WatchedResource{TypeUrl: v3.AddressType, ResourceNames: sets.New("/10.1.1.1")})
		if err != nil || res != nil || removed != nil {
			t.Fatalf(":173 expected (nil, nil), got %v / %v / %v", res, removed, err)
		}
	}
}

// On the wire (delta ADS): does pushDeltaXds sort DeletedResources / Resources before sending? It does not:
// delta.go `Resources: res` and, for usedDelta generators, `resp.RemovedResources = deletedRes`.
const c17DeltaStreams = 40

// G3 on the wire: a wildcard ztunnel reconnects, holding four stale resources.
func TestC17_G3_WildcardReconnectOverDeltaADS(t *testing.T) {
	s, _, _, _ := c17WorkloadServer(t)
	initial := map[string]string{}
	for _, n := range c17StaleUIDs {
		initial[n] = ""
	}
	resOrders, removeOrders := pilotxds.C17Orders{}, pilotxds.C17Orders{}
	for i := 0; i < c17DeltaStreams; i++ {
		ads := s.ConnectDeltaADS().WithType(v3.AddressType).WithMetadata(model.NodeMetadata{NodeName: "node"})
		resp := ads.RequestResponseAck(&discovery.DeltaDiscoveryRequest{
			ResourceNamesSubscribe:   []string{},
			ResourceNamesUnsubscribe: []string{},
			InitialResourceVersions:  initial,
		})
		var names []string
		for _, r := range resp.Resources {
			names = append(names, r.Name)
		}
		if len(names) != 4 || len(resp.RemovedResources) != 4 {
			t.Fatalf("expected 4 resources and 4 removed names, got %v / %v", names, resp.RemovedResources)
		}
		resOrders.Add(c17ShortUIDs(names))
		removeOrders.Add(c17ShortUIDs(resp.RemovedResources))
		ads.Cleanup()
	}
	if len(removeOrders) != 1 {
		t.Errorf("DeltaDiscoveryResponse.RemovedResources came in %d distinct orders over %d identical reconnects:%v",
			len(removeOrders), c17DeltaStreams, removeOrders)
	}
	if len(resOrders) != 1 {
		t.Errorf("DeltaDiscoveryResponse.Resources came in %d distinct orders over %d identical reconnects:%v",
			len(resOrders), c17DeltaStreams, resOrders)
	}
}

// G4 on the wire: an on-demand client subscribes to four live and four unknown addresses (always in the same order in the request).
func TestC17_G4_OndemandOverDeltaADS(t *testing.T) {
	s, _, _, ips := c17WorkloadServer(t)
	resOrders, removeOrders := pilotxds.C17Orders{}, pilotxds.C17Orders{}
	for i := 0; i < c17DeltaStreams; i++ {
		ads := s.ConnectDeltaADS().WithType(v3.AddressType).WithMetadata(model.NodeMetadata{NodeName: "node"})
		// switch to on-demand, exactly like TestWorkload/TestWorkloadReconnect do
		ads.Request(&discovery.DeltaDiscoveryRequest{
			ResourceNamesSubscribe:   []string{"*"},
			ResourceNamesUnsubscribe: []string{"*"},
		})
		ads.ExpectEmptyResponse()
		resp := ads.RequestResponseAck(&discovery.DeltaDiscoveryRequest{
			ResourceNamesSubscribe: append(append([]string{}, ips...), c17StaleIPs...),
		})
		var names []string
		for _, r := range resp.Resources {
			names = append(names, r.Name)
		}
		if len(names) != 4 || len(resp.RemovedResources) != 4 {
			t.Fatalf("expected 4 resources and 4 removed names, got %v / %v", names, resp.RemovedResources)
		}
		resOrders.Add(c17ShortUIDs(names))
		removeOrders.Add(resp.RemovedResources)
		ads.Cleanup()
	}
	if len(removeOrders) != 1 {
		t.Errorf("DeltaDiscoveryResponse.RemovedResources came in %d distinct orders over %d identical on-demand subscriptions:%v",
			len(removeOrders), c17DeltaStreams, removeOrders)
	}
	if len(resOrders) != 1 {
		t.Errorf("DeltaDiscoveryResponse.Resources came in %d distinct orders over %d identical on-demand subscriptions:%v",
			len(resOrders), c17DeltaStreams, resOrders)
	}
}
