// Copyright Istio Authors
//
// Licensed under the Apache License, Version 2.0 (the "License");
// you may not use this file except in compliance with the License.
// You may obtain a copy of the License at
//
//     http://www.apache.org/licenses/LICENSE-2.0
//
// Unless required by applicable law or agreed to in writing, software
// distributed under the License is distributed on an "AS IS" BASIS,
// WITHOUT WARRANTIES OR CONDITIONS OF ANY KIND, either express or implied.
// See the License for the specific language governing permissions and
// limitations under the License.

package route_test

// Place this file in pilot/pkg/networking/core/route/ (package route_test).
//
// Property: generating configuration twice for the same proxy from the same set of
// configuration objects yields byte-identical resources, regardless of map iteration order.
//
// A VirtualService whose per-destination `http[].route[].headers.request.set` (or `.add`) map holds
// both ":authority" and "Host" passes ValidateVirtualService (only the route level `http[].headers`
// is checked by validateAuthorityRewrite). translateAppendHeaders then picks "the last one" while
// ranging over the map, so the HostRewriteLiteral of the generated route depends on map order.

import (
	"fmt"
	"sort"
	"strings"
	"testing"

	envoyroute "github.com/envoyproxy/go-control-plane/envoy/config/route/v3"
	"google.golang.org/protobuf/proto"

	networking "istio.io/api/networking/v1alpha3"
	"istio.io/istio/pilot/pkg/config/memory"
	"istio.io/istio/pilot/pkg/model"
	"istio.io/istio/pilot/pkg/networking/core"
	"istio.io/istio/pilot/pkg/networking/core/route"
	"istio.io/istio/pkg/config"
	"istio.io/istio/pkg/config/host"
	"istio.io/istio/pkg/config/protocol"
	"istio.io/istio/pkg/config/schema/collections"
	"istio.io/istio/pkg/config/schema/gvk"
	"istio.io/istio/pkg/config/validation"
	"istio.io/istio/pkg/util/sets"
)

const (
	findUIterations = 100
	findUSvcA       = "a.default.svc.cluster.local"
	findUSvcB       = "b.default.svc.cluster.local"
)

func findUTwoKeys() map[string]string {
	return map[string]string{":authority": "a.example.com", "Host": "b.example.com"}
}

func findUOneKey() map[string]string {
	return map[string]string{":authority": "a.example.com"}
}

func findUVS(name string, http *networking.HTTPRoute) config.Config {
	return config.Config{
		Meta: config.Meta{
			GroupVersionKind: gvk.VirtualService,
			Name:             name,
			Namespace:        "default",
		},
		Spec: &networking.VirtualService{
			Hosts: []string{findUSvcA},
			Http:  []*networking.HTTPRoute{http},
		},
	}
}

func findUDest(h string, weight int32, hdr *networking.Headers) *networking.HTTPRouteDestination {
	return &networking.HTTPRouteDestination{
		Destination: &networking.Destination{Host: h},
		Weight:      weight,
		Headers:     hdr,
	}
}

func findUReqSet(m map[string]string) *networking.Headers {
	return &networking.Headers{Request: &networking.Headers_HeaderOperations{Set: m}}
}

func findUReqAdd(m map[string]string) *networking.Headers {
	return &networking.Headers{Request: &networking.Headers_HeaderOperations{Add: m}}
}

// per destination, single destination (processDestination -> RouteAction.HostRewriteLiteral)
func findUVSDestSet(m map[string]string) config.Config {
	return findUVS("dest-set", &networking.HTTPRoute{
		Route: []*networking.HTTPRouteDestination{findUDest(findUSvcA, 0, findUReqSet(m))},
	})
}

func findUVSDestAdd(m map[string]string) config.Config {
	return findUVS("dest-add", &networking.HTTPRoute{
		Route: []*networking.HTTPRouteDestination{findUDest(findUSvcA, 0, findUReqAdd(m))},
	})
}

// per destination, weighted (processWeightedDestination -> ClusterWeight.HostRewriteLiteral)
func findUVSWeightedSet(m map[string]string) config.Config {
	return findUVS("weighted-set", &networking.HTTPRoute{
		Route: []*networking.HTTPRouteDestination{
			findUDest(findUSvcA, 50, findUReqSet(m)),
			findUDest(findUSvcB, 50, nil),
		},
	})
}

// route level (translateRoute -> RouteAction.HostRewriteLiteral)
func findUVSRouteSet(m map[string]string) config.Config {
	return findUVS("route-set", &networking.HTTPRoute{
		Headers: findUReqSet(m),
		Route:   []*networking.HTTPRouteDestination{findUDest(findUSvcA, 0, nil)},
	})
}

func findUVSRouteAdd(m map[string]string) config.Config {
	return findUVS("route-add", &networking.HTTPRoute{
		Headers: findUReqAdd(m),
		Route:   []*networking.HTTPRouteDestination{findUDest(findUSvcA, 0, nil)},
	})
}

func findUServices() []*model.Service {
	mk := func(h string, addr string) *model.Service {
		return &model.Service{
			Hostname:       host.Name(h),
			DefaultAddress: addr,
			Ports: model.PortList{&model.Port{
				Name:     "http",
				Port:     80,
				Protocol: protocol.HTTP,
			}},
			Attributes: model.ServiceAttributes{Name: strings.Split(h, ".")[0], Namespace: "default"},
		}
	}
	return []*model.Service{mk(findUSvcA, "10.0.0.1"), mk(findUSvcB, "10.0.0.2")}
}

func findUDistinct(m map[string]int) string {
	keys := make([]string, 0, len(m))
	for k := range m {
		keys = append(keys, k)
	}
	sort.Strings(keys)
	parts := make([]string, 0, len(keys))
	for _, k := range keys {
		parts = append(parts, fmt.Sprintf("%q x%d", k, m[k]))
	}
	return strings.Join(parts, ", ")
}

// TestFindU_ValidationCoverage records which header locations that reach translateAppendHeaders are
// covered by the "authority may be set only once" validation.
func TestFindU_ValidationCoverage(t *testing.T) {
	cases := []struct {
		name     string
		cfg      config.Config
		accepted bool
	}{
		// http[].headers: covered by validateAuthorityRewrite
		{"route-level request.set, 2 authority keys", findUVSRouteSet(findUTwoKeys()), false},
		{"route-level request.add, 2 authority keys", findUVSRouteAdd(findUTwoKeys()), false},
		{"route-level request.set, 1 authority key", findUVSRouteSet(findUOneKey()), true},
		// http[].route[].headers: NOT covered
		{"per-destination request.set, 2 authority keys", findUVSDestSet(findUTwoKeys()), true},
		{"per-destination request.add, 2 authority keys", findUVSDestAdd(findUTwoKeys()), true},
		{"per-destination (weighted) request.set, 2 authority keys", findUVSWeightedSet(findUTwoKeys()), true},
		{"per-destination request.set, 1 authority key", findUVSDestSet(findUOneKey()), true},
	}
	for _, tt := range cases {
		t.Run(tt.name, func(t *testing.T) {
			warn, err := validation.ValidateVirtualService(tt.cfg)
			t.Logf("ValidateVirtualService: warning=%v error=%v", warn, err)
			if (err == nil) != tt.accepted {
				t.Fatalf("accepted=%v, expected accepted=%v (err=%v)", err == nil, tt.accepted, err)
			}
		})
	}
}

// TestFindU_DirectBuild builds the routes of one validated VirtualService N times for one proxy and one
// push context with route.BuildHTTPRoutesForVirtualService and counts the distinct host rewrites.
func TestFindU_DirectBuild(t *testing.T) {
	registry := map[host.Name]*model.Service{}
	for _, s := range findUServices() {
		registry[s.Hostname] = s
	}

	singleRewrite := func(r *envoyroute.Route) string {
		return r.GetRoute().GetHostRewriteLiteral()
	}
	weightedRewrite := func(r *envoyroute.Route) string {
		out := []string{}
		for _, c := range r.GetRoute().GetWeightedClusters().GetClusters() {
			out = append(out, c.GetName()+"="+c.GetHostRewriteLiteral())
		}
		return strings.Join(out, ";")
	}

	cases := []struct {
		name    string
		cfg     config.Config
		extract func(r *envoyroute.Route) string
	}{
		{"control: per-destination set, one authority key", findUVSDestSet(findUOneKey()), singleRewrite},
		{"per-destination set, :authority and Host", findUVSDestSet(findUTwoKeys()), singleRewrite},
		{"per-destination add, :authority and Host", findUVSDestAdd(findUTwoKeys()), singleRewrite},
		{"weighted per-destination set, :authority and Host", findUVSWeightedSet(findUTwoKeys()), weightedRewrite},
	}
	for _, tt := range cases {
		t.Run(tt.name, func(t *testing.T) {
			if _, err := validation.ValidateVirtualService(tt.cfg); err != nil {
				t.Fatalf("config must pass validation: %v", err)
			}
			cg := core.NewConfigGenTest(t, core.TestOptions{Services: findUServices()})
			proxy := cg.SetupProxy(&model.Proxy{ConfigNamespace: "default"})
			opts := buildRouteOpts(registry, nil)
			opts.Push = cg.PushContext()

			rewrites := map[string]int{}
			serialised := map[string]int{}
			for i := 0; i < findUIterations; i++ {
				routes, err := route.BuildHTTPRoutesForVirtualService(proxy, tt.cfg, 80, sets.New[string](), opts)
				if err != nil {
					t.Fatal(err)
				}
				if len(routes) != 1 {
					t.Fatalf("expected 1 route, got %d", len(routes))
				}
				rewrites[tt.extract(routes[0])]++
				b, err := proto.MarshalOptions{Deterministic: true}.Marshal(routes[0])
				if err != nil {
					t.Fatal(err)
				}
				serialised[string(b)]++
			}
			t.Logf("%d builds: %d distinct host rewrites {%s}, %d distinct serialisations",
				findUIterations, len(rewrites), findUDistinct(rewrites), len(serialised))
			if len(rewrites) != 1 || len(serialised) != 1 {
				t.Fatalf("same proxy + same push context + same config produced %d distinct host rewrites {%s} and %d distinct serialisations",
					len(rewrites), findUDistinct(rewrites), len(serialised))
			}
			for k := range rewrites {
				if strings.TrimSuffix(k, ";") == "" {
					t.Fatalf("expected a host rewrite to be generated, got %q", k)
				}
			}
		})
	}
}

// TestFindU_RDS goes through the real path: the VirtualService is admitted by a validating config store
// (the schema's ValidateConfig, i.e. ValidateVirtualService), the push context is built once, and the
// RDS resource "80" is generated N times for the same sidecar proxy with ConfigGeneratorImpl.BuildHTTPRoutes
// (caching disabled, as on a different/ restarted control-plane instance).
func TestFindU_RDS(t *testing.T) {
	cases := []struct {
		name string
		cfg  config.Config
	}{
		{"control: per-destination set, one authority key", findUVSDestSet(findUOneKey())},
		{"per-destination set, :authority and Host", findUVSDestSet(findUTwoKeys())},
		{"weighted per-destination set, :authority and Host", findUVSWeightedSet(findUTwoKeys())},
	}
	for _, tt := range cases {
		t.Run(tt.name, func(t *testing.T) {
			if _, err := validation.ValidateVirtualService(tt.cfg); err != nil {
				t.Fatalf("config must pass validation: %v", err)
			}
			cg := core.NewConfigGenTest(t, core.TestOptions{
				// skipValidation=false: Create() runs the schema validation and would reject the config
				ConfigController: memory.NewController(collections.Pilot, false),
				Configs:          []config.Config{tt.cfg},
				Services:         findUServices(),
			})
			proxy := cg.SetupProxy(&model.Proxy{ConfigNamespace: "default"})
			push := cg.PushContext()

			rewrites := map[string]int{}
			serialised := map[string]int{}
			for i := 0; i < findUIterations; i++ {
				resources, _ := cg.ConfigGen.BuildHTTPRoutes(proxy, &model.PushRequest{Push: push}, []string{"80"})
				if len(resources) != 1 {
					t.Fatalf("expected 1 RDS resource, got %d", len(resources))
				}
				// the bytes that go on the wire
				serialised[string(resources[0].Resource.Value)]++

				rc := &envoyroute.RouteConfiguration{}
				if err := resources[0].Resource.UnmarshalTo(rc); err != nil {
					t.Fatal(err)
				}
				found := false
				for _, vh := range rc.VirtualHosts {
					if vh.Name != findUSvcA+":80" {
						continue
					}
					found = true
					if len(vh.Routes) != 1 {
						t.Fatalf("expected 1 route in vhost %s, got %d", vh.Name, len(vh.Routes))
					}
					ra := vh.Routes[0].GetRoute()
					if wc := ra.GetWeightedClusters(); wc != nil {
						out := []string{}
						for _, c := range wc.GetClusters() {
							out = append(out, c.GetName()+"="+c.GetHostRewriteLiteral())
						}
						rewrites[strings.Join(out, ";")]++
					} else {
						rewrites[ra.GetHostRewriteLiteral()]++
					}
				}
				if !found {
					names := []string{}
					for _, vh := range rc.VirtualHosts {
						names = append(names, vh.Name)
					}
					t.Fatalf("virtual host %s:80 not found in %v", findUSvcA, names)
				}
			}
			t.Logf("%d RDS generations: %d distinct host rewrites {%s}, %d distinct serialised resources",
				findUIterations, len(rewrites), findUDistinct(rewrites), len(serialised))
			if len(rewrites) != 1 || len(serialised) != 1 {
				t.Fatalf("same proxy + same push context produced %d distinct host rewrites {%s} and %d distinct serialised RDS resources",
					len(rewrites), findUDistinct(rewrites), len(serialised))
			}
		})
	}
}
