// Copyright Istio Authors
//
// Licensed under the Apache License, Version 2.0 (the "License");
// you may not use this file except in compliance with the License.
// You may obtain a copy of the License at
//
//     http://www.apache.org/licenses/LICENSE-2.0
//
// Unless required by applicable law or agreed to in writing, software
// distributed under the License is distributed on an "AS IS" BASIS,
// WITHOUT WARRANTIES OR CONDITIONS OF ANY KIND, either express or implied.
// See the License for the specific language governing permissions and
// limitations under the License.

package envoyfilter

import (
	"bytes"
	"testing"

	cluster "github.com/envoyproxy/go-control-plane/envoy/config/cluster/v3"
	tls "github.com/envoyproxy/go-control-plane/envoy/extensions/transport_sockets/tls/v3"
	"google.golang.org/protobuf/proto"

	networking "istio.io/api/networking/v1alpha3"
	"istio.io/istio/pilot/pkg/model"
	"istio.io/istio/pilot/pkg/serviceregistry/memory"
	"istio.io/istio/pkg/config/host"
)

// Two cluster MERGE patches that both carry a transport_socket of the same name, applied (in
// this order) to a generated cluster that has no transport socket at all.
func findOConfigPatches() []*networking.EnvoyFilter_EnvoyConfigObjectPatch {
	match := func() *networking.EnvoyFilter_EnvoyConfigObjectMatch {
		return &networking.EnvoyFilter_EnvoyConfigObjectMatch{
			Context: networking.EnvoyFilter_SIDECAR_OUTBOUND,
			ObjectTypes: &networking.EnvoyFilter_EnvoyConfigObjectMatch_Cluster{
				Cluster: &networking.EnvoyFilter_ClusterMatch{PortNumber: 8443},
			},
		}
	}
	return []*networking.EnvoyFilter_EnvoyConfigObjectPatch{
		{
			ApplyTo: networking.EnvoyFilter_CLUSTER,
			Match:   match(),
			Patch: &networking.EnvoyFilter_Patch{
				Operation: networking.EnvoyFilter_Patch_MERGE,
				Value: buildPatchStruct(`
				{"transport_socket":{
					"name":"envoy.transport_sockets.tls",
					"typed_config":{
						"@type":"type.googleapis.com/envoy.extensions.transport_sockets.tls.v3.UpstreamTlsContext",
						"sni":"a.example.com"}}}`),
			},
		},
		{
			ApplyTo: networking.EnvoyFilter_CLUSTER,
			Match:   match(),
			Patch: &networking.EnvoyFilter_Patch{
				Operation: networking.EnvoyFilter_Patch_MERGE,
				Value: buildPatchStruct(`
				{"transport_socket":{
					"name":"envoy.transport_sockets.tls",
					"typed_config":{
						"@type":"type.googleapis.com/envoy.extensions.transport_sockets.tls.v3.UpstreamTlsContext",
						"common_tls_context":{"alpn_protocols":["h2"]}}}}`),
			},
		},
	}
}

func findOSetup(t *testing.T) (*model.MergedEnvoyFilterWrapper, []*model.EnvoyFilterConfigPatchWrapper) {
	t.Helper()
	// Explicit priorities so that the sni patch is always applied before the alpn patch.
	store := buildEnvoyFilterConfigStoreWithPriorities(findOConfigPatches(), []int32{1, 2})
	env := newTestEnvironment(t, memory.NewServiceDiscovery(), testMesh, store)
	push := model.NewPushContext()
	push.InitContext(env, nil, nil)
	efw := push.EnvoyFilters(&model.Proxy{Type: model.SidecarProxy, ConfigNamespace: "not-default"})
	if efw == nil {
		t.Fatalf("no envoy filters selected for the proxy")
	}
	cps := efw.Patches[networking.EnvoyFilter_CLUSTER]
	if len(cps) != 2 {
		t.Fatalf("expected 2 cluster patches, got %d", len(cps))
	}
	return efw, cps
}

// What cluster generation hands to ApplyClusterMerge: a freshly built cluster without any transport socket.
func findOFreshCluster() *cluster.Cluster {
	return &cluster.Cluster{Name: "outbound|8443||plain.example.com"}
}

func findOGenerate(t *testing.T, efw *model.MergedEnvoyFilterWrapper) *cluster.Cluster {
	t.Helper()
	out := ApplyClusterMerge(networking.EnvoyFilter_SIDECAR_OUTBOUND, efw, findOFreshCluster(), []host.Name{"plain.example.com"})
	if out == nil {
		t.Fatalf("cluster unexpectedly removed")
	}
	return out
}

func findOMarshal(t *testing.T, m proto.Message) []byte {
	t.Helper()
	b, err := proto.MarshalOptions{Deterministic: true}.Marshal(m)
	if err != nil {
		t.Fatal(err)
	}
	return b
}

func findOALPN(t *testing.T, c *cluster.Cluster) []string {
	t.Helper()
	ctx := &tls.UpstreamTlsContext{}
	if err := c.GetTransportSocket().GetTypedConfig().UnmarshalTo(ctx); err != nil {
		t.Fatal(err)
	}
	return ctx.GetCommonTlsContext().GetAlpnProtocols()
}

// Generating the same cluster repeatedly from the same MergedEnvoyFilterWrapper (same proxy, same
// EnvoyFilters, nothing changed in between) must yield byte-identical clusters.
func TestFindO_RepeatedClusterGenerationIsByteIdentical(t *testing.T) {
	efw, _ := findOSetup(t)

	first := findOGenerate(t, efw)
	firstBytes := findOMarshal(t, first)
	// Snapshot: later generations must not be able to reach back into an already generated cluster either.
	firstSnapshot := proto.Clone(first).(*cluster.Cluster)
	if got := findOALPN(t, first); len(got) != 1 || got[0] != "h2" {
		t.Fatalf("generation 1: unexpected alpn_protocols %v", got)
	}

	for i := 2; i <= 4; i++ {
		got := findOGenerate(t, efw)
		if gotBytes := findOMarshal(t, got); !bytes.Equal(firstBytes, gotBytes) {
			t.Errorf("generation %d differs from generation 1 although nothing changed:\n gen 1 alpn_protocols=%v\n gen %d alpn_protocols=%v\n gen 1: %v\n gen %d: %v",
				i, findOALPN(t, firstSnapshot), i, findOALPN(t, got), firstSnapshot, i, got)
		}
	}

	if !proto.Equal(firstSnapshot, first) {
		t.Errorf("the cluster returned by generation 1 was modified by later generations:\n was: %v\n now: %v", firstSnapshot, first)
	}
}

// Applying the patches must not modify the patches stored in the push context
// (EnvoyFilterConfigPatchWrapper.Value is shared by all proxies and all pushes).
func TestFindO_StoredPatchUnchangedByGeneration(t *testing.T) {
	efw, cps := findOSetup(t)

	before := make([]proto.Message, len(cps))
	for i, cp := range cps {
		before[i] = proto.Clone(cp.Value)
	}

	for i := 0; i < 3; i++ {
		findOGenerate(t, efw)
	}

	for i, cp := range cps {
		if !proto.Equal(before[i], cp.Value) {
			t.Errorf("stored patch %d (%s) was modified by cluster generation:\n before: %v\n after:  %v", i, cp.Key(), before[i], cp.Value)
		}
	}
}

// The generated cluster must not share its transport socket with the stored patch: whoever
// post-processes the generated cluster would otherwise edit the EnvoyFilter for everyone else.
func TestFindO_GeneratedClusterDoesNotAliasStoredPatch(t *testing.T) {
	efw, cps := findOSetup(t)
	out := findOGenerate(t, efw)
	for i, cp := range cps {
		if out.GetTransportSocket() == cp.Value.(*cluster.Cluster).GetTransportSocket() {
			t.Errorf("generated cluster's TransportSocket is the very same object as stored patch %d's TransportSocket", i)
		}
	}
}

// Even within one generation: two different plaintext clusters matched by the same two patches
// must end up with the same transport socket.
func TestFindO_TwoClustersInOneGenerationGetSameTransportSocket(t *testing.T) {
	efw, _ := findOSetup(t)
	a := ApplyClusterMerge(networking.EnvoyFilter_SIDECAR_OUTBOUND, efw,
		&cluster.Cluster{Name: "outbound|8443||a.example.com"}, []host.Name{"a.example.com"})
	aTS := findOMarshal(t, a.GetTransportSocket())
	aALPN := findOALPN(t, a)
	b := ApplyClusterMerge(networking.EnvoyFilter_SIDECAR_OUTBOUND, efw,
		&cluster.Cluster{Name: "outbound|8443||b.example.com"}, []host.Name{"b.example.com"})
	if bTS := findOMarshal(t, b.GetTransportSocket()); !bytes.Equal(aTS, bTS) {
		t.Errorf("same patches, different transport sockets: cluster a alpn_protocols=%v, cluster b alpn_protocols=%v", aALPN, findOALPN(t, b))
	}
}
