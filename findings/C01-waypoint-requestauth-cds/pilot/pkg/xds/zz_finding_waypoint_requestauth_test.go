// Copyright Istio Authors
//
// Licensed under the Apache License, Version 2.0 (the "License");
// you may not use this file except in compliance with the License.
// You may obtain a copy of the License at
//
//     http://www.apache.org/licenses/LICENSE-2.0
//
// Unless required by applicable law or agreed to in writing, software
// distributed under the License is distributed on an "AS IS" BASIS,
// WITHOUT WARRANTIES OR CONDITIONS OF ANY KIND, either express or implied.
// See the License for the specific language governing permissions and
// limitations under the License.

package xds_test

// Finding C01-waypoint-requestauth-cds.
//
// Property under test: after any history of config changes a connected proxy holds exactly the
// resources a fresh generation would yield for it.
//
// With PILOT_JWT_ENABLE_REMOTE_JWKS=envoy|hybrid, waypoint CDS contains an extra outbound cluster for the
// JWKS host of every RequestAuthentication that applies to the waypoint
// (buildClusters `case model.Waypoint` -> PushContext.ExtraWaypointServices -> extraServicesForProxy).
// cdsNeedsPush however filters kind.RequestAuthentication (skippedCdsConfigs) for every proxy type except
// Router, so creating / changing / deleting such a RequestAuthentication never pushes CDS to the waypoint.
//
// The test drives the real DiscoveryServer over a real ADS stream ("long-lived" proxy), applies a change
// that only touches a RequestAuthentication, and then compares what the long-lived proxy holds with what an
// identical proxy that connects afterwards ("fresh" proxy) receives.

import (
	"bytes"
	"context"
	"net"
	"sort"
	"strings"
	"testing"
	"time"

	clusterv3 "github.com/envoyproxy/go-control-plane/envoy/config/cluster/v3"
	corev3 "github.com/envoyproxy/go-control-plane/envoy/config/core/v3"
	listenerv3 "github.com/envoyproxy/go-control-plane/envoy/config/listener/v3"
	discovery "github.com/envoyproxy/go-control-plane/envoy/service/discovery/v3"
	"google.golang.org/grpc"
	"google.golang.org/grpc/credentials/insecure"
	"google.golang.org/protobuf/proto"
	"google.golang.org/protobuf/types/known/anypb"

	securityv1beta1 "istio.io/api/security/v1beta1"
	typev1beta1 "istio.io/api/type/v1beta1"
	"istio.io/istio/pilot/pkg/features"
	"istio.io/istio/pilot/pkg/model"
	v3 "istio.io/istio/pilot/pkg/xds/v3"
	"istio.io/istio/pilot/test/xds"
	"istio.io/istio/pkg/config"
	"istio.io/istio/pkg/config/mesh"
	"istio.io/istio/pkg/config/schema/gvk"
	"istio.io/istio/pkg/jwt"
	"istio.io/istio/pkg/test"
	"istio.io/istio/pkg/test/util/retry"
)

const (
	raFindingWaypointID = "waypoint~3.0.0.1~waypoint-pod.default~default.svc.cluster.local"

	raFindingJwksCluster = "outbound|443||jwks.example.com"

	raFindingWaypointSvc = `apiVersion: v1
kind: Service
metadata:
  labels:
    gateway.istio.io/managed: istio.io-mesh-controller
    gateway.networking.k8s.io/gateway-name: waypoint
    istio.io/gateway-name: waypoint
  name: waypoint
  namespace: default
spec:
  clusterIP: 3.0.0.0
  ports:
  - appProtocol: hbone
    name: mesh
    port: 15008
  selector:
    gateway.networking.k8s.io/gateway-name: waypoint
`
	raFindingWaypointInstance = `apiVersion: networking.istio.io/v1
kind: WorkloadEntry
metadata:
  name: waypoint-a
  namespace: default
spec:
  address: 3.0.0.1
  labels:
    gateway.networking.k8s.io/gateway-name: waypoint
    gateway.istio.io/managed: istio.io-mesh-controller
`
	raFindingWaypointGateway = `apiVersion: gateway.networking.k8s.io/v1
kind: Gateway
metadata:
  name: waypoint
  namespace: default
spec:
  gatewayClassName: waypoint
  listeners:
    - name: mesh
      port: 15008
      protocol: HBONE
status:
  addresses:
  - type: Hostname
    value: waypoint.default.svc.cluster.local
`
	// A service that uses the waypoint
	raFindingApp = `apiVersion: networking.istio.io/v1
kind: ServiceEntry
metadata:
  name: app
  namespace: default
  labels:
    istio.io/use-waypoint: waypoint
spec:
  hosts: [app.com]
  addresses: [1.2.3.4]
  ports:
  - number: 80
    name: http
    protocol: HTTP
  resolution: STATIC
  endpoints:
  - address: 1.1.1.1
`
	// The (mesh-registered) external JWKS server; required for Envoy to fetch the keys itself.
	raFindingJwksServer = `apiVersion: networking.istio.io/v1
kind: ServiceEntry
metadata:
  name: jwks
  namespace: default
spec:
  hosts: [jwks.example.com]
  location: MESH_EXTERNAL
  ports:
  - number: 443
    name: https
    protocol: HTTPS
  resolution: DNS
`
)

func raFindingRequestAuthentication(jwksURI string) config.Config {
	return config.Config{
		Meta: config.Meta{
			GroupVersionKind: gvk.RequestAuthentication,
			Name:             "jwt",
			Namespace:        "default",
		},
		Spec: &securityv1beta1.RequestAuthentication{
			TargetRefs: []*typev1beta1.PolicyTargetReference{{
				Group: "gateway.networking.k8s.io",
				Kind:  "Gateway",
				Name:  "waypoint",
			}},
			JwtRules: []*securityv1beta1.JWTRule{{
				Issuer:  "https://issuer.example.com",
				JwksUri: jwksURI,
			}},
		},
	}
}

func raFindingWaypointLabels() map[string]string {
	return map[string]string{
		"gateway.networking.k8s.io/gateway-name": "waypoint",
		"gateway.istio.io/managed":               "istio.io-mesh-controller",
	}
}

func raFindingWaypointMetadata() model.NodeMetadata {
	return model.NodeMetadata{
		Namespace:    "default",
		IstioVersion: "1.30.0",
		Labels:       raFindingWaypointLabels(),
	}
}

// raFindingADS is a minimal state-of-the-world ADS client that remembers, per type, the last set of
// resources the server sent on this stream - i.e. what an Envoy connected for that long would hold.
type raFindingADS struct {
	t      *testing.T
	stream discovery.AggregatedDiscoveryService_StreamAggregatedResourcesClient
	node   *corev3.Node
	resp   chan *discovery.DiscoveryResponse
	held   map[string]map[string]*anypb.Any
	pushes map[string]int
}

func raFindingConnect(t *testing.T, d *xds.FakeDiscoveryServer, id string, meta model.NodeMetadata) *raFindingADS {
	t.Helper()
	conn, err := grpc.Dial("buffcon",
		grpc.WithTransportCredentials(insecure.NewCredentials()),
		grpc.WithBlock(),
		grpc.WithContextDialer(func(context.Context, string) (net.Conn, error) {
			return d.BufListener.Dial()
		}))
	if err != nil {
		t.Fatal(err)
	}
	ctx, cancel := context.WithCancel(context.Background())
	t.Cleanup(func() {
		cancel()
		_ = conn.Close()
	})
	stream, err := discovery.NewAggregatedDiscoveryServiceClient(conn).StreamAggregatedResources(ctx)
	if err != nil {
		t.Fatal(err)
	}
	a := &raFindingADS{
		t:      t,
		stream: stream,
		node:   &corev3.Node{Id: id, Metadata: meta.ToStruct()},
		resp:   make(chan *discovery.DiscoveryResponse, 100),
		held:   map[string]map[string]*anypb.Any{},
		pushes: map[string]int{},
	}
	go func() {
		for {
			r, err := stream.Recv()
			if err != nil {
				close(a.resp)
				return
			}
			a.resp <- r
		}
	}()
	// Envoy order: CDS then LDS
	for _, typ := range []string{v3.ClusterType, v3.ListenerType} {
		if err := stream.Send(&discovery.DiscoveryRequest{Node: a.node, TypeUrl: typ}); err != nil {
			t.Fatal(err)
		}
		if !a.recv(5 * time.Second) {
			t.Fatalf("no initial response for %v", typ)
		}
	}
	return a
}

// recv waits for one response, records it and ACKs it. Returns false on timeout.
func (a *raFindingADS) recv(timeout time.Duration) bool {
	a.t.Helper()
	select {
	case r, ok := <-a.resp:
		if !ok {
			a.t.Fatalf("stream closed")
		}
		m := map[string]*anypb.Any{}
		for _, res := range r.Resources {
			m[raFindingResourceName(a.t, res)] = res
		}
		a.held[r.TypeUrl] = m
		a.pushes[r.TypeUrl]++
		if err := a.stream.Send(&discovery.DiscoveryRequest{
			Node: a.node, TypeUrl: r.TypeUrl, ResponseNonce: r.Nonce, VersionInfo: r.VersionInfo,
		}); err != nil {
			a.t.Fatal(err)
		}
		return true
	case <-time.After(timeout):
		return false
	}
}

// drain consumes every response that arrives until the stream has been quiet for `quiet`.
func (a *raFindingADS) drain(quiet time.Duration) {
	for a.recv(quiet) {
	}
}

func (a *raFindingADS) names(typ string) []string {
	res := make([]string, 0, len(a.held[typ]))
	for n := range a.held[typ] {
		res = append(res, n)
	}
	sort.Strings(res)
	return res
}

// listenersReferencing returns the names of held listeners whose serialized config mentions `s`.
func (a *raFindingADS) listenersReferencing(s string) []string {
	res := []string{}
	for n, l := range a.held[v3.ListenerType] {
		if bytes.Contains(l.Value, []byte(s)) {
			res = append(res, n)
		}
	}
	sort.Strings(res)
	return res
}

func raFindingResourceName(t *testing.T, a *anypb.Any) string {
	t.Helper()
	switch a.TypeUrl {
	case v3.ClusterType:
		c := &clusterv3.Cluster{}
		if err := a.UnmarshalTo(c); err != nil {
			t.Fatal(err)
		}
		return c.Name
	case v3.ListenerType:
		l := &listenerv3.Listener{}
		if err := a.UnmarshalTo(l); err != nil {
			t.Fatal(err)
		}
		return l.Name
	}
	t.Fatalf("unexpected type %v", a.TypeUrl)
	return ""
}

// raFindingWaitPushed blocks until the change is visible in the global push context and the server has processed
// that push context for the connection with the given node ID (i.e. pushConnection ran for it, whether or not
// anything was sent).
func raFindingWaitPushed(t *testing.T, d *xds.FakeDiscoveryServer, nodeID string, visible func() bool) {
	t.Helper()
	retry.UntilOrFail(t, visible, retry.Timeout(10*time.Second), retry.Delay(10*time.Millisecond))
	deadline := time.Now().Add(10 * time.Second)
	for time.Now().Before(deadline) {
		d.EnsureSynced(t)
		want := d.Env().PushContext()
		for _, c := range d.Discovery.Clients() {
			if !strings.Contains(nodeID, "~"+c.Proxy().ID+"~") {
				continue
			}
			c.Proxy().RLock()
			got := c.Proxy().LastPushContext
			c.Proxy().RUnlock()
			if got == want {
				return
			}
		}
		time.Sleep(10 * time.Millisecond)
	}
	t.Fatalf("connection was never pushed the latest push context")
}

// raFindingCompare asserts that the long-lived proxy holds exactly what a proxy with the same identity
// connecting now (== fresh generation) receives.
func raFindingCompare(t *testing.T, old, fresh *raFindingADS) {
	t.Helper()
	for _, typ := range []string{v3.ListenerType, v3.ClusterType} {
		short := v3.GetShortType(typ)
		t.Logf("%s held by long-lived proxy (%d pushes): %v", short, old.pushes[typ], old.names(typ))
		t.Logf("%s of a fresh generation          : %v", short, fresh.names(typ))
		for name, want := range fresh.held[typ] {
			got, f := old.held[typ][name]
			if !f {
				t.Errorf("%s: long-lived proxy is missing resource %q that a fresh generation contains", short, name)
				continue
			}
			if !proto.Equal(got, want) {
				t.Errorf("%s: resource %q held by long-lived proxy differs from a fresh generation", short, name)
			}
		}
		for name := range old.held[typ] {
			if _, f := fresh.held[typ][name]; !f {
				t.Errorf("%s: long-lived proxy still holds stale resource %q that a fresh generation does not contain", short, name)
			}
		}
	}
	t.Logf("listeners held by long-lived proxy that reference cluster %q: %v (cluster held: %v)",
		raFindingJwksCluster, old.listenersReferencing(raFindingJwksCluster), old.held[v3.ClusterType][raFindingJwksCluster] != nil)
}

// raFindingJwksURIs returns the JWKS URIs of the RequestAuthentications the current global push context
// attaches to the waypoint.
func raFindingJwksURIs(d *xds.FakeDiscoveryServer) []string {
	res := []string{}
	m := model.WorkloadPolicyMatcher{WorkloadNamespace: "default", WorkloadLabels: raFindingWaypointLabels(), IsWaypoint: true}
	for _, cfg := range d.PushContext().AuthnPolicies.GetJwtPoliciesForWorkload(m) {
		for _, r := range cfg.Spec.(*securityv1beta1.RequestAuthentication).JwtRules {
			res = append(res, r.JwksUri)
		}
	}
	return res
}

func raFindingStep(t *testing.T, d *xds.FakeDiscoveryServer, name string, change func(t *testing.T), wantJwksURIs ...string) {
	t.Run(name, func(t *testing.T) {
		old := raFindingConnect(t, d, raFindingWaypointID, raFindingWaypointMetadata())
		t.Logf("LDS before the change: %v", old.names(v3.ListenerType))
		t.Logf("CDS before the change: %v", old.names(v3.ClusterType))
		change(t)
		raFindingWaitPushed(t, d, old.node.Id, func() bool {
			return strings.Join(raFindingJwksURIs(d), ",") == strings.Join(wantJwksURIs, ",")
		})
		old.drain(500 * time.Millisecond)
		fresh := raFindingConnect(t, d, strings.Replace(raFindingWaypointID, "waypoint-pod", "waypoint-fresh", 1), raFindingWaypointMetadata())
		raFindingCompare(t, old, fresh)
	})
}

// History: a RequestAuthentication with a remote jwksUri that targets the waypoint is created, then deleted.
// Every step only produces ConfigsUpdated={RequestAuthentication} (not Forced).
func TestFindingWaypointRequestAuthenticationRemoteJwksCDS(t *testing.T) {
	for _, mode := range []jwt.JwksFetchMode{jwt.Envoy, jwt.Hybrid} {
		t.Run(mode.String(), func(t *testing.T) {
			// PILOT_JWT_ENABLE_REMOTE_JWKS=envoy / hybrid
			test.SetForTest(t, &features.JwksFetchMode, mode)
			c := strings.Join([]string{
				raFindingWaypointSvc, raFindingWaypointInstance, raFindingWaypointGateway, raFindingApp, raFindingJwksServer,
			}, "\n---\n")
			d := xds.NewFakeDiscoveryServer(t, xds.FakeOptions{
				ConfigString:           c,
				KubernetesObjectString: c,
				MeshConfig:             mesh.DefaultMeshConfig(),
			})

			const uri = "https://jwks.example.com/.well-known/jwks.json"
			raFindingStep(t, d, "create RequestAuthentication", func(t *testing.T) {
				if _, err := d.Store().Create(raFindingRequestAuthentication(uri)); err != nil {
					t.Fatal(err)
				}
			}, uri)
			raFindingStep(t, d, "delete RequestAuthentication", func(t *testing.T) {
				if err := d.Store().Delete(gvk.RequestAuthentication, "jwt", "default", nil); err != nil {
					t.Fatal(err)
				}
			})
		})
	}
}
