// Copyright Istio Authors
//
// Licensed under the Apache License, Version 2.0 (the "License");
// you may not use this file except in compliance with the License.
// You may obtain a copy of the License at
//
//     http://www.apache.org/licenses/LICENSE-2.0
//
// Unless required by applicable law or agreed to in writing, software
// distributed under the License is distributed on an "AS IS" BASIS,
// WITHOUT WARRANTIES OR CONDITIONS OF ANY KIND, either express or implied.
// See the License for the specific language governing permissions and
// limitations under the License.

package xds_test

import (
	"fmt"
	"reflect"
	"sort"
	"testing"
	"time"

	networking "istio.io/api/networking/v1alpha3"
	"istio.io/istio/pilot/pkg/model"
	v3 "istio.io/istio/pilot/pkg/xds/v3"
	xdsfake "istio.io/istio/pilot/test/xds"
	"istio.io/istio/pilot/test/xdstest"
	"istio.io/istio/pkg/adsc"
	"istio.io/istio/pkg/config"
	"istio.io/istio/pkg/config/schema/gvk"
	"istio.io/istio/pkg/test/util/retry"
)

// findX, end to end: a ServiceEntry selecting WorkloadEntries; two WorkloadEntries that share
// namespace, workload name (label service.istio.io/workload-name resp. the auto registration group),
// address and service port name are two members of the service with one IstioEndpoint.Key().
// Deleting the one that sorts first leaves the registry (the endpoint shard) with one member, but no EDS push is
// requested: a proxy that is connected keeps both, a proxy that connects afterwards gets one.
//
// Place in pilot/pkg/xds/ (package xds_test).

const (
	findXHost    = "vm.example.com"
	findXCluster = "outbound|80||" + findXHost
)

var findXWatch = []string{v3.ClusterType, v3.EndpointType}

func findXServiceEntry(inline ...*networking.WorkloadEntry) config.Config {
	se := &networking.ServiceEntry{
		Hosts:      []string{findXHost},
		Ports:      []*networking.ServicePort{{Number: 80, Protocol: "HTTP", Name: "http"}},
		Resolution: networking.ServiceEntry_STATIC,
		Location:   networking.ServiceEntry_MESH_INTERNAL,
	}
	if len(inline) > 0 {
		se.Endpoints = inline
	} else {
		se.WorkloadSelector = &networking.WorkloadSelector{Labels: map[string]string{"app": "vm"}}
	}
	return config.Config{
		Meta: config.Meta{GroupVersionKind: gvk.ServiceEntry, Name: "vm", Namespace: "default"},
		Spec: se,
	}
}

// metaLabels/annotations are those of the WorkloadEntry resource: the workload name of the endpoints is taken from them
// (annotation istio.io/autoRegistrationGroup, then label service.istio.io/workload-name, then the resource name).
func findXWorkloadEntry(name string, metaLabels, annotations map[string]string, we *networking.WorkloadEntry) config.Config {
	return config.Config{
		Meta: config.Meta{GroupVersionKind: gvk.WorkloadEntry, Name: name, Namespace: "default", Labels: metaLabels, Annotations: annotations},
		Spec: we,
	}
}

func findXHeld(c *adsc.ADSC) []string {
	got := xdstest.ExtractEndpoints(c.GetEndpoints()[findXCluster])
	sort.Strings(got)
	return got
}

func findXRegistry(s *xdsfake.FakeDiscoveryServer) []string {
	shards, f := s.Env().EndpointIndex.ShardsForService(findXHost, "default")
	if !f {
		return nil
	}
	shards.RLock()
	defer shards.RUnlock()
	got := []string{}
	for _, eps := range shards.Shards {
		for _, ep := range eps {
			got = append(got, fmt.Sprintf("%s:%d", ep.FirstAddressOrNil(), ep.EndpointPort))
		}
	}
	sort.Strings(got)
	return got
}

// findXRun: connect a proxy, apply the change to the config store, wait until the registry reported it
// (the endpoint shard holds `want`), then compare what the connected proxy holds with what a fresh proxy is given.
func findXRun(t *testing.T, initial []config.Config, before []string, change func(s *xdsfake.FakeDiscoveryServer), want []string) {
	t.Helper()
	s := xdsfake.NewFakeDiscoveryServer(t, xdsfake.FakeOptions{Configs: initial})
	connected := s.Connect(&model.Proxy{IPAddresses: []string{"10.10.10.10"}}, findXWatch, findXWatch)
	retry.UntilSuccessOrFail(t, func() error {
		if got := findXHeld(connected); !reflect.DeepEqual(got, before) {
			return fmt.Errorf("connected proxy holds %v, want %v", got, before)
		}
		return nil
	}, retry.Timeout(10*time.Second))
	t.Logf("before: registry %v, connected proxy holds %v", findXRegistry(s), findXHeld(connected))
	connected.WaitClear()

	change(s)

	// the registry reported the new member list: the shard content (what EDS is generated from) is `want`
	retry.UntilSuccessOrFail(t, func() error {
		if got := findXRegistry(s); !reflect.DeepEqual(got, want) {
			return fmt.Errorf("endpoint shard holds %v, want %v", got, want)
		}
		return nil
	}, retry.Timeout(10*time.Second))

	_, pushErr := connected.Wait(3*time.Second, v3.EndpointType)
	fresh := s.Connect(&model.Proxy{IPAddresses: []string{"10.10.10.11"}}, findXWatch, findXWatch)
	t.Logf("after:  registry %v, EDS push to the connected proxy: %v, connected proxy holds %v, fresh proxy gets %v",
		findXRegistry(s), pushErr == nil, findXHeld(connected), findXHeld(fresh))

	if got := findXHeld(fresh); !reflect.DeepEqual(got, want) {
		t.Errorf("fresh proxy gets %v, want %v", got, want)
	}
	if pushErr != nil {
		t.Errorf("no EDS push reached the connected proxy within 3s of the registry update: %v", pushErr)
	}
	if err := retry.UntilSuccess(func() error {
		if got := findXHeld(connected); !reflect.DeepEqual(got, want) {
			return fmt.Errorf("connected proxy holds %v, the registry last reported %v (a fresh proxy gets %v)", got, want, findXHeld(fresh))
		}
		return nil
	}, retry.Timeout(2*time.Second)); err != nil {
		t.Error(err)
	}
}

func findXDelete(kind config.GroupVersionKind, name string) func(s *xdsfake.FakeDiscoveryServer) {
	return func(s *xdsfake.FakeDiscoveryServer) {
		if err := s.Store().Delete(kind, name, "default", nil); err != nil {
			panic(err)
		}
	}
}

// Two processes of one workload on one VM: WorkloadEntries vm-a (http: 8080) and vm-b (http: 8081), same address,
// same service.istio.io/workload-name label on the resources.
func findXTwoPorts() []config.Config {
	lbl := map[string]string{"app": "vm"}
	wn := map[string]string{"service.istio.io/workload-name": "vm"}
	return []config.Config{
		findXServiceEntry(),
		findXWorkloadEntry("vm-a", wn, nil, &networking.WorkloadEntry{Address: "10.0.0.1", Labels: lbl, Ports: map[string]uint32{"http": 8080}}),
		findXWorkloadEntry("vm-b", wn, nil, &networking.WorkloadEntry{Address: "10.0.0.1", Labels: lbl, Ports: map[string]uint32{"http": 8081}}),
	}
}

// the affected history: the member that goes away is not the last one in the reported order
func TestFindX_E2E_WorkloadEntries_SameAddressTwoPorts_DropFirst(t *testing.T) {
	findXRun(t, findXTwoPorts(),
		[]string{"10.0.0.1:8080", "10.0.0.1:8081"},
		findXDelete(gvk.WorkloadEntry, "vm-a"),
		[]string{"10.0.0.1:8081"})
}

// control: dropping the last one is seen (the survivor is compared with the dropped member and differs)
func TestFindX_E2E_WorkloadEntries_SameAddressTwoPorts_DropSecond(t *testing.T) {
	findXRun(t, findXTwoPorts(),
		[]string{"10.0.0.1:8080", "10.0.0.1:8081"},
		findXDelete(gvk.WorkloadEntry, "vm-b"),
		[]string{"10.0.0.1:8080"})
}

// Auto registered WorkloadEntries of one WorkloadGroup: same IP in two networks (this is why the network is part
// of the name of an auto registered WorkloadEntry). Same workload name (the group), same address, same port.
func TestFindX_E2E_WorkloadEntries_SameAddressTwoNetworks_DropFirst(t *testing.T) {
	group := map[string]string{"istio.io/autoRegistrationGroup": "wg"}
	lbl := map[string]string{"app": "vm"}
	findXRun(t, []config.Config{
		findXServiceEntry(),
		findXWorkloadEntry("wg-10.0.0.5-net1", nil, group, &networking.WorkloadEntry{Address: "10.0.0.5", Labels: lbl, Network: "net1"}),
		findXWorkloadEntry("wg-10.0.0.5-net2", nil, group, &networking.WorkloadEntry{Address: "10.0.0.5", Labels: lbl, Network: "net2"}),
	},
		[]string{"10.0.0.5:80", "10.0.0.5:80"},
		findXDelete(gvk.WorkloadEntry, "wg-10.0.0.5-net1"),
		[]string{"10.0.0.5:80"})
}

// control: inline endpoints of a ServiceEntry do NOT collide, their workload name is <serviceentry>-<index>.
func TestFindX_E2E_InlineEndpoints_SameAddressTwoPorts_DropFirst(t *testing.T) {
	a := &networking.WorkloadEntry{Address: "10.0.0.1", Ports: map[string]uint32{"http": 8080}}
	b := &networking.WorkloadEntry{Address: "10.0.0.1", Ports: map[string]uint32{"http": 8081}}
	findXRun(t, []config.Config{findXServiceEntry(a, b)},
		[]string{"10.0.0.1:8080", "10.0.0.1:8081"},
		func(s *xdsfake.FakeDiscoveryServer) {
			if _, err := s.Store().Update(findXServiceEntry(b)); err != nil {
				panic(err)
			}
		},
		[]string{"10.0.0.1:8081"})
}
