// Copyright Istio Authors
//
// Licensed under the Apache License, Version 2.0 (the "License");
// you may not use this file except in compliance with the License.
// You may obtain a copy of the License at
//
//     http://www.apache.org/licenses/LICENSE-2.0
//
// Unless required by applicable law or agreed to in writing, software
// distributed under the License is distributed on an "AS IS" BASIS,
// WITHOUT WARRANTIES OR CONDITIONS OF ANY KIND, either express or implied.
// See the License for the specific language governing permissions and
// limitations under the License.

package model

import (
	"fmt"
	"testing"

	"istio.io/istio/pkg/network"
)

// findX: IstioEndpoint.Key() is the identity endpointUpdateRequiresPush diffs the old and the incoming
// shard content by. Two distinct members of a service that agree on
// namespace/workload name/first address/service port name share a key; an update that drops every
// one of them but the one that was the last writer into the "old" map is classified NoPush although
// the set of members changed.
//
// Place in pilot/pkg/model/ (package model).

func findXEp(workload, addr string, port uint32, nw string) *IstioEndpoint {
	return &IstioEndpoint{
		Addresses:       []string{addr},
		Namespace:       "ns",
		WorkloadName:    workload,
		ServicePortName: "http",
		EndpointPort:    port,
		Network:         network.ID(nw),
		HealthStatus:    Healthy,
	}
}

func findXDescribe(eps []*IstioEndpoint) string {
	out := "["
	for i, e := range eps {
		if i > 0 {
			out += " "
		}
		out += fmt.Sprintf("%s:%d", e.FirstAddressOrNil(), e.EndpointPort)
		if e.Network != "" {
			out += "@" + string(e.Network)
		}
	}
	return out + "]"
}

// TestFindX_KeyDistinguishesMembers: Key() "returns a function suitable for usage to distinguish this
// IstioEndpoint from another". Members that differ on the wire must not share it.
func TestFindX_KeyDistinguishesMembers(t *testing.T) {
	a, b := findXEp("vm", "10.0.0.1", 8080, ""), findXEp("vm", "10.0.0.1", 8081, "")
	if a.Equals(b) {
		t.Fatalf("test bug: the two members must be different")
	}
	if a.Key() == b.Key() {
		t.Errorf("same address, same service port name, different endpoint port: both members have key %q", a.Key())
	}
	c, d := findXEp("vm", "10.0.0.1", 8080, "net1"), findXEp("vm", "10.0.0.1", 8080, "net2")
	if c.Equals(d) {
		t.Fatalf("test bug: the two members must be different")
	}
	if c.Key() == d.Key() {
		t.Errorf("same address and port on two networks: both members have key %q", c.Key())
	}
}

// TestFindX_UpdateServiceEndpoints_Histories walks the histories over two (three) members with a colliding
// key and checks that every update that changes the member set of the shard requests a push.
func TestFindX_UpdateServiceEndpoints_Histories(t *testing.T) {
	p8080 := func() *IstioEndpoint { return findXEp("vm", "10.0.0.1", 8080, "") }
	p8081 := func() *IstioEndpoint { return findXEp("vm", "10.0.0.1", 8081, "") }
	p8082 := func() *IstioEndpoint { return findXEp("vm", "10.0.0.1", 8082, "") }
	p9090 := func() *IstioEndpoint { return findXEp("vm", "10.0.0.1", 9090, "") }
	net1 := func() *IstioEndpoint { return findXEp("wg", "10.0.0.5", 8080, "net1") }
	net2 := func() *IstioEndpoint { return findXEp("wg", "10.0.0.5", 8080, "net2") }
	other := func() *IstioEndpoint { return findXEp("vm", "10.0.0.2", 8080, "") }

	cases := []struct {
		name     string
		old, new []*IstioEndpoint
		wantPush bool
	}{
		// the affected histories
		{"ports: drop the first of two", []*IstioEndpoint{p8080(), p8081()}, []*IstioEndpoint{p8081()}, true},
		{"ports: drop all but the last of three", []*IstioEndpoint{p8080(), p8081(), p8082()}, []*IstioEndpoint{p8082()}, true},
		{"ports: drop the first of two, unrelated member untouched", []*IstioEndpoint{other(), p8080(), p8081()}, []*IstioEndpoint{other(), p8081()}, true},
		{"networks: drop the first of two", []*IstioEndpoint{net1(), net2()}, []*IstioEndpoint{net2()}, true},
		// histories that are classified correctly before and after (the survivor differs from the last writer)
		{"ports: drop the second of two", []*IstioEndpoint{p8080(), p8081()}, []*IstioEndpoint{p8080()}, true},
		{"ports: drop the middle of three", []*IstioEndpoint{p8080(), p8081(), p8082()}, []*IstioEndpoint{p8080(), p8082()}, true},
		{"ports: replace the first", []*IstioEndpoint{p8080(), p8081()}, []*IstioEndpoint{p9090(), p8081()}, true},
		{"ports: replace the second", []*IstioEndpoint{p8080(), p8081()}, []*IstioEndpoint{p8080(), p9090()}, true},
		{"ports: add a second (after)", []*IstioEndpoint{p8080()}, []*IstioEndpoint{p8080(), p8081()}, true},
		{"ports: add a second (before)", []*IstioEndpoint{p8081()}, []*IstioEndpoint{p8080(), p8081()}, true},
		{"networks: drop the second of two", []*IstioEndpoint{net1(), net2()}, []*IstioEndpoint{net1()}, true},
		// control: nothing changed, nothing to push
		{"ports: unchanged", []*IstioEndpoint{p8080(), p8081()}, []*IstioEndpoint{p8080(), p8081()}, false},
		{"single member unchanged", []*IstioEndpoint{p8081()}, []*IstioEndpoint{p8081()}, false},
	}
	for _, tc := range cases {
		t.Run(tc.name, func(t *testing.T) {
			shard := ShardKey{Cluster: "c1", Provider: "External"}
			idx := NewEndpointIndex(DisabledCache{})
			if pt := idx.UpdateServiceEndpoints(shard, "vm.example.com", "ns", tc.old, true); pt != FullPush {
				t.Fatalf("initial report: got push type %v, want FullPush(%v)", pt, FullPush)
			}
			pt := idx.UpdateServiceEndpoints(shard, "vm.example.com", "ns", tc.new, true)
			shards, _ := idx.ShardsForService("vm.example.com", "ns")
			shards.RLock()
			stored := append([]*IstioEndpoint{}, shards.Shards[shard]...)
			shards.RUnlock()
			t.Logf("%s -> %s: push type %d (0=NoPush 1=IncrementalPush 2=FullPush), shard now holds %s",
				findXDescribe(tc.old), findXDescribe(tc.new), pt, findXDescribe(stored))
			if findXDescribe(stored) != findXDescribe(tc.new) {
				t.Errorf("shard holds %s, want %s", findXDescribe(stored), findXDescribe(tc.new))
			}
			if gotPush := pt != NoPush; gotPush != tc.wantPush {
				why := "connected proxies are not told about the change"
				if !tc.wantPush {
					why = "nothing changed (spurious push; harmless for the property, shows the collision)"
				}
				t.Errorf("%s -> %s: push requested = %v, want %v: %s",
					findXDescribe(tc.old), findXDescribe(tc.new), gotPush, tc.wantPush, why)
			}
			// and the diff function on its own
			if _, need := endpointUpdateRequiresPush(tc.old, tc.new); need != tc.wantPush {
				t.Errorf("endpointUpdateRequiresPush = %v, want %v", need, tc.wantPush)
			}
		})
	}
}
