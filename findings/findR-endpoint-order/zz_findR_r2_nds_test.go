// Copyright Istio Authors
//
// Licensed under the Apache License, Version 2.0 (the "License");
// you may not use this file except in compliance with the License.
// You may obtain a copy of the License at
//
//     http://www.apache.org/licenses/LICENSE-2.0
//
// Unless required by applicable law or agreed to in writing, software
// distributed under the License is distributed on an "AS IS" BASIS,
// WITHOUT WARRANTIES OR CONDITIONS OF ANY KIND, either express or implied.
// See the License for the specific language governing permissions and
// limitations under the License.

package xds_test

import (
	"strings"
	"testing"
	"time"

	core "github.com/envoyproxy/go-control-plane/envoy/config/core/v3"
	discovery "github.com/envoyproxy/go-control-plane/envoy/service/discovery/v3"
	"google.golang.org/protobuf/proto"
	corev1 "k8s.io/api/core/v1"
	discoveryv1 "k8s.io/api/discovery/v1"
	metav1 "k8s.io/apimachinery/pkg/apis/meta/v1"
	"k8s.io/apimachinery/pkg/runtime"

	"istio.io/istio/pilot/pkg/model"
	v3 "istio.io/istio/pilot/pkg/xds/v3"
	xdsfake "istio.io/istio/pilot/test/xds"
	"istio.io/istio/pkg/cluster"
	dnsProto "istio.io/istio/pkg/dns/proto"
	"istio.io/istio/pkg/test/util/retry"
)

func findRHeadless(name string, ips ...string) []runtime.Object {
	portName := "tcp"
	portNum := int32(9000)
	es := &discoveryv1.EndpointSlice{
		ObjectMeta: metav1.ObjectMeta{
			Name:      name + "-a",
			Namespace: "default",
			Labels:    map[string]string{discoveryv1.LabelServiceName: name},
		},
		AddressType: discoveryv1.AddressTypeIPv4,
		Ports:       []discoveryv1.EndpointPort{{Name: &portName, Port: &portNum}},
	}
	for _, ip := range ips {
		es.Endpoints = append(es.Endpoints, discoveryv1.Endpoint{Addresses: []string{ip}})
	}
	return []runtime.Object{
		&corev1.Service{
			// same creation time everywhere, so that "which cluster's Service is the oldest" plays no role
			ObjectMeta: metav1.ObjectMeta{Name: name, Namespace: "default", CreationTimestamp: metav1.NewTime(time.Unix(1700000000, 0))},
			Spec: corev1.ServiceSpec{
				ClusterIP: corev1.ClusterIPNone,
				Ports:     []corev1.ServicePort{{Name: "tcp", Port: 9000, Protocol: corev1.ProtocolTCP}},
			},
		},
		es,
	}
}

// TestFindR_R2_HeadlessMulticlusterNameTable goes end to end with real kube registries: a headless Service that exists
// in 4 clusters has one endpoint shard per cluster. Between two NDS requests nothing changes; istiod only rebuilds its
// PushContext (forced full push).
func TestFindR_R2_HeadlessMulticlusterNameTable(t *testing.T) {
	const iterations = 50
	objs := map[cluster.ID][]runtime.Object{}
	for i, c := range []cluster.ID{"Kubernetes", "c2", "c3", "c4"} {
		pfx := "10." + string(rune('1'+i)) + ".0."
		objs[c] = findRHeadless("hl-multi", pfx+"1", pfx+"2")
	}
	objs["Kubernetes"] = append(objs["Kubernetes"], findRHeadless("hl-single", "10.9.0.1", "10.9.0.2", "10.9.0.3", "10.9.0.4", "10.9.0.5", "10.9.0.6")...)
	s := xdsfake.NewFakeDiscoveryServer(t, xdsfake.FakeOptions{KubernetesObjectsByCluster: objs})

	const multiHost, singleHost = "hl-multi.default.svc.cluster.local", "hl-single.default.svc.cluster.local"
	requestNDS := func(t *testing.T) (multi, single *dnsProto.NameTable_NameInfo) {
		t.Helper()
		ads := s.ConnectADS().WithType(v3.NameTableType)
		defer ads.Cleanup()
		res := ads.RequestResponseAck(t, &discovery.DiscoveryRequest{
			Node: &core.Node{Id: ads.ID, Metadata: model.NodeMetadata{DNSCapture: true}.ToStruct()},
		})
		nt := &dnsProto.NameTable{}
		if err := res.Resources[0].UnmarshalTo(nt); err != nil {
			t.Fatal(err)
		}
		return nt.Table[multiHost], nt.Table[singleHost]
	}
	det := func(m proto.Message) string {
		b, err := proto.MarshalOptions{Deterministic: true}.Marshal(m)
		if err != nil {
			t.Fatal(err)
		}
		return string(b)
	}
	// all 4 shards present?
	retry.UntilOrFail(t, func() bool {
		s.Discovery.ConfigUpdate(&model.PushRequest{Forced: true, Reason: model.NewReasonStats(model.GlobalUpdate)})
		s.EnsureSynced(t)
		m, sg := requestNDS(t)
		return len(m.GetIps()) == 8 && len(sg.GetIps()) == 6
	}, retry.Timeout(10*time.Second), retry.Delay(10*time.Millisecond))
	shards, _ := s.Discovery.Env.EndpointIndex.ShardsForService(multiHost, "default")
	shards.RLock()
	t.Logf("shards of %s: %v", multiHost, shards.Keys())
	shards.RUnlock()

	multi, single, orders := map[string]int{}, map[string]int{}, map[string]int{}
	for i := 0; i < iterations; i++ {
		s.Discovery.ConfigUpdate(&model.PushRequest{Forced: true, Reason: model.NewReasonStats(model.GlobalUpdate)})
		s.EnsureSynced(t)
		m, sg := requestNDS(t)
		if len(m.GetIps()) != 8 {
			t.Fatalf("expected 8 addresses, got %v", m.GetIps())
		}
		multi[det(m)]++
		single[det(sg)]++
		orders[strings.Join(m.GetIps(), " ")]++
	}
	t.Logf("headless service in 4 clusters: %d distinct name table entries over %d generations; in 1 cluster (control): %d",
		len(multi), iterations, len(single))
	if len(single) != 1 {
		t.Errorf("control: single-cluster headless service produced %d distinct name table entries", len(single))
	}
	if len(multi) != 1 {
		for o, n := range orders {
			t.Logf("  %3dx %s", n, o)
		}
		t.Errorf("NDS: unchanged headless service present in 4 clusters produced %d distinct name table entries over %d generations",
			len(multi), iterations)
	}
}
