// Copyright Istio Authors
//
// Licensed under the Apache License, Version 2.0 (the "License");
// you may not use this file except in compliance with the License.
// You may obtain a copy of the License at
//
//     http://www.apache.org/licenses/LICENSE-2.0
//
// Unless required by applicable law or agreed to in writing, software
// distributed under the License is distributed on an "AS IS" BASIS,
// WITHOUT WARRANTIES OR CONDITIONS OF ANY KIND, either express or implied.
// See the License for the specific language governing permissions and
// limitations under the License.

package model

import (
	"fmt"
	"strings"
	"testing"

	"istio.io/istio/pilot/pkg/serviceregistry/provider"
	"istio.io/istio/pkg/cluster"
	"istio.io/istio/pkg/util/sets"
)

// TestFindR_R2_CopyEndpointsOrder: the snapshot of a service's endpoints that PushContext.initServiceRegistry stores
// in ServiceIndex.instancesByPort must not depend on map iteration over the shards.
func TestFindR_R2_CopyEndpointsOrder(t *testing.T) {
	const iterations = 50
	idx := NewEndpointIndex(DisabledCache{})
	ep := func(addr string) *IstioEndpoint {
		return &IstioEndpoint{Addresses: []string{addr}, ServicePortName: "tcp", EndpointPort: 3306}
	}
	for i, c := range []cluster.ID{"c1", "c2", "c3", "c4"} {
		idx.UpdateServiceEndpoints(ShardKey{Cluster: c, Provider: provider.Kubernetes}, "multi.example.com", "default",
			[]*IstioEndpoint{ep(fmt.Sprintf("10.%d.0.1", i+1)), ep(fmt.Sprintf("10.%d.0.2", i+1))}, false)
	}
	idx.UpdateServiceEndpoints(ShardKey{Cluster: "c1", Provider: provider.Kubernetes}, "single.example.com", "default",
		[]*IstioEndpoint{ep("10.9.0.1"), ep("10.9.0.2"), ep("10.9.0.3"), ep("10.9.0.4")}, false)

	order := func(host string) string {
		shards, f := idx.ShardsForService(host, "default")
		if !f {
			t.Fatalf("no shards for %s", host)
		}
		byPort := shards.CopyEndpoints(map[string]int{"tcp": 3306}, sets.New(3306))
		var out []string
		for _, e := range byPort[3306] {
			out = append(out, e.FirstAddressOrNil())
		}
		return strings.Join(out, " ")
	}
	multi, single := map[string]int{}, map[string]int{}
	for i := 0; i < iterations; i++ {
		multi[order("multi.example.com")]++
		single[order("single.example.com")]++
	}
	t.Logf("4 shards: %d distinct orders over %d snapshots; 1 shard (control): %d", len(multi), iterations, len(single))
	if len(single) != 1 {
		t.Errorf("control: single-shard service gave %d distinct orders", len(single))
	}
	if len(multi) != 1 {
		for o, n := range multi {
			t.Logf("  %3dx %s", n, o)
		}
		t.Errorf("CopyEndpoints of the same 4 shards gave %d distinct endpoint orders over %d snapshots", len(multi), iterations)
	}
}
