// Copyright Istio Authors
//
// Licensed under the Apache License, Version 2.0 (the "License");
// you may not use this file except in compliance with the License.
// You may obtain a copy of the License at
//
//     http://www.apache.org/licenses/LICENSE-2.0
//
// Unless required by applicable law or agreed to in writing, software
// distributed under the License is distributed on an "AS IS" BASIS,
// WITHOUT WARRANTIES OR CONDITIONS OF ANY KIND, either express or implied.
// See the License for the specific language governing permissions and
// limitations under the License.

package core

import (
	"fmt"
	"strings"
	"testing"

	"google.golang.org/protobuf/proto"

	"istio.io/istio/pilot/pkg/features"
	"istio.io/istio/pilot/pkg/model"
	"istio.io/istio/pilot/pkg/serviceregistry/provider"
	"istio.io/istio/pilot/test/xdstest"
	"istio.io/istio/pkg/cluster"
	"istio.io/istio/pkg/config/constants"
	"istio.io/istio/pkg/config/host"
	"istio.io/istio/pkg/config/protocol"
	dnsServer "istio.io/istio/pkg/dns/server"
	"istio.io/istio/pkg/test"
)

// TestFindR_R2_ShardOrder: services whose endpoints live in several endpoint shards (several clusters / registries).
// The configuration objects, services and endpoints never change; only the PushContext is rebuilt (what a full push
// after any service change does, and what a second istiod instance does). Everything that reads
// PushContext.ServiceEndpointsByPort sees the endpoints in an order that follows map iteration over the shards in
// EndpointShards.CopyEndpoints.
func TestFindR_R2_ShardOrder(t *testing.T) {
	const iterations = 50
	test.SetForTest(t, &features.EnableHeadlessFilterChainListener, true)

	dnsSvc := func(name string) *model.Service {
		return &model.Service{
			Hostname:       host.Name(name),
			DefaultAddress: constants.UnspecifiedIP,
			Ports:          model.PortList{{Name: "tcp", Port: 3306, Protocol: protocol.TCP}},
			Resolution:     model.DNSLB,
			MeshExternal:   true,
			Attributes:     model.ServiceAttributes{Name: name, Namespace: "default", ServiceRegistry: provider.External},
		}
	}
	headlessSvc := func(name string) *model.Service {
		return &model.Service{
			Hostname:       host.Name(name + ".default.svc.cluster.local"),
			DefaultAddress: constants.UnspecifiedIP,
			Ports:          model.PortList{{Name: "tcp", Port: 9000, Protocol: protocol.TCP}},
			Resolution:     model.Passthrough,
			Attributes:     model.ServiceAttributes{Name: name, Namespace: "default", ServiceRegistry: provider.Kubernetes},
		}
	}
	dnsMulti, dnsSingle := dnsSvc("multi.example.com"), dnsSvc("single.example.com")
	hlMulti, hlSingle := headlessSvc("hl-multi"), headlessSvc("hl-single")
	cg := NewConfigGenTest(t, TestOptions{Services: []*model.Service{dnsMulti, dnsSingle, hlMulti, hlSingle}})

	ep := func(addr string, port uint32) *model.IstioEndpoint {
		return &model.IstioEndpoint{Addresses: []string{addr}, ServicePortName: "tcp", EndpointPort: port, HealthStatus: model.Healthy}
	}
	idx := cg.Env().EndpointIndex
	for i, c := range []cluster.ID{"c1", "c2", "c3", "c4"} {
		// e.g. WorkloadEntries of several clusters selected by one ServiceEntry
		idx.UpdateServiceEndpoints(model.ShardKey{Cluster: c, Provider: provider.External}, string(dnsMulti.Hostname), "default",
			[]*model.IstioEndpoint{ep(fmt.Sprintf("db-%d-a.example.com", i+1), 3306), ep(fmt.Sprintf("db-%d-b.example.com", i+1), 3306)}, false)
		// e.g. a headless Service that exists in several clusters
		idx.UpdateServiceEndpoints(model.ShardKey{Cluster: c, Provider: provider.Kubernetes}, string(hlMulti.Hostname), "default",
			[]*model.IstioEndpoint{ep(fmt.Sprintf("10.%d.0.1", i+1), 9000), ep(fmt.Sprintf("10.%d.0.2", i+1), 9000)}, false)
	}
	var dnsEps, hlEps []*model.IstioEndpoint
	for i := 1; i <= 8; i++ {
		dnsEps = append(dnsEps, ep(fmt.Sprintf("db-single-%d.example.com", i), 3306))
		hlEps = append(hlEps, ep(fmt.Sprintf("10.9.0.%d", i), 9000))
	}
	idx.UpdateServiceEndpoints(model.ShardKey{Cluster: "c1", Provider: provider.External}, string(dnsSingle.Hostname), "default", dnsEps, false)
	idx.UpdateServiceEndpoints(model.ShardKey{Cluster: "c1", Provider: provider.Kubernetes}, string(hlSingle.Hostname), "default", hlEps, false)

	det := func(m proto.Message) string {
		b, err := proto.MarshalOptions{Deterministic: true}.Marshal(m)
		if err != nil {
			t.Fatal(err)
		}
		return string(b)
	}
	type counts struct{ cdsMulti, cdsSingle, ldsMulti, ldsSingle, ndsMulti, ndsSingle map[string]int }
	c := counts{map[string]int{}, map[string]int{}, map[string]int{}, map[string]int{}, map[string]int{}, map[string]int{}}
	orders := map[string]int{}
	for i := 0; i < iterations; i++ {
		// same inputs, new PushContext
		pc := model.NewPushContext()
		pc.InitContext(cg.Env(), nil, nil)
		cg.Env().SetPushContext(pc)
		proxy := cg.SetupProxy(&model.Proxy{Metadata: &model.NodeMetadata{DNSCapture: true}})

		// CDS: inline load assignment of the STRICT_DNS clusters
		clusters := cg.Clusters(proxy)
		cm := xdstest.ExtractCluster("outbound|3306||multi.example.com", clusters)
		cs := xdstest.ExtractCluster("outbound|3306||single.example.com", clusters)
		if cm == nil || cs == nil {
			t.Fatalf("clusters not found: %v", xdstest.ExtractClusters(clusters))
		}
		var addrs []string
		for _, l := range cm.GetLoadAssignment().GetEndpoints() {
			for _, e := range l.GetLbEndpoints() {
				addrs = append(addrs, e.GetEndpoint().GetAddress().GetSocketAddress().GetAddress())
			}
		}
		if len(addrs) != 8 {
			t.Fatalf("expected 8 endpoints in the DNS cluster, got %v", addrs)
		}
		orders[strings.Join(addrs, " ")]++
		c.cdsMulti[det(cm)]++
		c.cdsSingle[det(cs)]++

		// LDS: per-pod filter chains of the headless TCP service listener (PILOT_ENABLE_HEADLESS_FILTER_CHAIN_LISTENER)
		listeners := cg.Listeners(proxy)
		l := xdstest.ExtractListener("0.0.0.0_9000", listeners)
		if l == nil {
			t.Fatalf("listener 0.0.0.0_9000 not found: %v", xdstest.ExtractListenerNames(listeners))
		}
		var multiChains, singleChains []string
		for _, fc := range l.GetFilterChains() {
			for _, r := range fc.GetFilterChainMatch().GetPrefixRanges() {
				if strings.HasPrefix(r.GetAddressPrefix(), "10.9.") {
					singleChains = append(singleChains, r.GetAddressPrefix())
				} else {
					multiChains = append(multiChains, r.GetAddressPrefix())
				}
			}
		}
		if len(multiChains) != 8 || len(singleChains) != 8 {
			t.Fatalf("expected 8+8 per-pod filter chains, got %v %v", multiChains, singleChains)
		}
		c.ldsMulti[strings.Join(multiChains, " ")]++
		c.ldsSingle[strings.Join(singleChains, " ")]++

		// NDS: addresses of the headless service in the DNS name table
		nt := dnsServer.BuildNameTable(dnsServer.Config{Node: proxy, Push: pc, MulticlusterHeadlessEnabled: true})
		nm, ns := nt.Table[string(hlMulti.Hostname)], nt.Table[string(hlSingle.Hostname)]
		if len(nm.GetIps()) != 8 || len(ns.GetIps()) != 8 {
			t.Fatalf("expected 8+8 addresses in the name table, got %v %v", nm.GetIps(), ns.GetIps())
		}
		c.ndsMulti[det(nm)]++
		c.ndsSingle[det(ns)]++
	}
	t.Logf("over %d generations, distinct outputs (4 shards / 1 shard control):", iterations)
	t.Logf("  CDS STRICT_DNS cluster (deterministic bytes of the Cluster): %d / %d", len(c.cdsMulti), len(c.cdsSingle))
	t.Logf("  LDS headless listener filter chain order:                    %d / %d", len(c.ldsMulti), len(c.ldsSingle))
	t.Logf("  NDS name table entry (deterministic bytes):                  %d / %d", len(c.ndsMulti), len(c.ndsSingle))
	if len(c.cdsSingle) != 1 || len(c.ldsSingle) != 1 || len(c.ndsSingle) != 1 {
		t.Errorf("control: single-shard services are not stable: cds=%d lds=%d nds=%d", len(c.cdsSingle), len(c.ldsSingle), len(c.ndsSingle))
	}
	if len(c.cdsMulti) != 1 {
		for o, n := range orders {
			t.Logf("  %3dx %s", n, o)
		}
		t.Errorf("CDS: STRICT_DNS cluster of a service with 4 shards came out in %d distinct forms", len(c.cdsMulti))
	}
	if len(c.ldsMulti) != 1 {
		t.Errorf("LDS: filter chains of the headless service with 4 shards came out in %d distinct orders", len(c.ldsMulti))
	}
	if len(c.ndsMulti) != 1 {
		t.Errorf("NDS: name table entry of the headless service with 4 shards came out in %d distinct forms", len(c.ndsMulti))
	}
}
