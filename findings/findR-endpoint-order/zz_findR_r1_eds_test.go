// Copyright Istio Authors
//
// Licensed under the Apache License, Version 2.0 (the "License");
// you may not use this file except in compliance with the License.
// You may obtain a copy of the License at
//
//     http://www.apache.org/licenses/LICENSE-2.0
//
// Unless required by applicable law or agreed to in writing, software
// distributed under the License is distributed on an "AS IS" BASIS,
// WITHOUT WARRANTIES OR CONDITIONS OF ANY KIND, either express or implied.
// See the License for the specific language governing permissions and
// limitations under the License.

package xds_test

import (
	"context"
	"fmt"
	"strings"
	"testing"
	"time"

	endpoint "github.com/envoyproxy/go-control-plane/envoy/config/endpoint/v3"
	discovery "github.com/envoyproxy/go-control-plane/envoy/service/discovery/v3"
	corev1 "k8s.io/api/core/v1"
	discoveryv1 "k8s.io/api/discovery/v1"
	metav1 "k8s.io/apimachinery/pkg/apis/meta/v1"
	"k8s.io/apimachinery/pkg/runtime"
	"k8s.io/apimachinery/pkg/util/intstr"

	"istio.io/istio/pilot/pkg/model"
	fakeupdater "istio.io/istio/pilot/pkg/serviceregistry/util/xdsfake"
	v3 "istio.io/istio/pilot/pkg/xds/v3"
	xdsfake "istio.io/istio/pilot/test/xds"
	"istio.io/istio/pilot/test/xdstest"
	"istio.io/istio/pkg/test/util/retry"
)

func findRService(name, ip string) *corev1.Service {
	return &corev1.Service{
		ObjectMeta: metav1.ObjectMeta{Name: name, Namespace: "default"},
		Spec: corev1.ServiceSpec{
			ClusterIP:  ip,
			ClusterIPs: []string{ip},
			Ports:      []corev1.ServicePort{{Name: "http", Port: 80, TargetPort: intstr.FromInt32(8080), Protocol: corev1.ProtocolTCP}},
		},
	}
}

func findREndpointSlice(name, svc string, ips ...string) *discoveryv1.EndpointSlice {
	portName := "http"
	portNum := int32(8080)
	es := &discoveryv1.EndpointSlice{
		ObjectMeta: metav1.ObjectMeta{
			Name:      name,
			Namespace: "default",
			Labels:    map[string]string{discoveryv1.LabelServiceName: svc},
		},
		AddressType: discoveryv1.AddressTypeIPv4,
		Ports:       []discoveryv1.EndpointPort{{Name: &portName, Port: &portNum}},
	}
	for _, ip := range ips {
		es.Endpoints = append(es.Endpoints, discoveryv1.Endpoint{Addresses: []string{ip}})
	}
	return es
}

// TestFindR_R1_EDSOrderAcrossEndpointSlices goes end to end: kube Service + EndpointSlices -> kube registry -> endpoint
// shards -> EDS response over a (bufconn) ADS stream. Between two EDS requests only an annotation of one
// EndpointSlice changes (no endpoint is added, removed or modified).
func TestFindR_R1_EDSOrderAcrossEndpointSlices(t *testing.T) {
	const iterations = 50
	multiA := findREndpointSlice("multi-a", "multi", "10.1.0.1", "10.1.0.2", "10.1.0.3")
	singleA := findREndpointSlice("single-a", "single", "10.2.0.1", "10.2.0.2", "10.2.0.3", "10.2.0.4", "10.2.0.5", "10.2.0.6")
	s := xdsfake.NewFakeDiscoveryServer(t, xdsfake.FakeOptions{
		EnableFakeXDSUpdater: true,
		KubernetesObjects: []runtime.Object{
			findRService("multi", "10.0.0.1"),
			multiA,
			findREndpointSlice("multi-b", "multi", "10.1.1.1", "10.1.1.2", "10.1.1.3"),
			findREndpointSlice("multi-c", "multi", "10.1.2.1", "10.1.2.2", "10.1.2.3"),
			findREndpointSlice("multi-d", "multi", "10.1.3.1", "10.1.3.2", "10.1.3.3"),
			findRService("single", "10.0.0.2"),
			singleA,
		},
	})
	fx := s.XdsUpdater.(*fakeupdater.Updater)
	const (
		multiHost     = "multi.default.svc.cluster.local"
		singleHost    = "single.default.svc.cluster.local"
		multiCluster  = "outbound|80||" + multiHost
		singleCluster = "outbound|80||" + singleHost
	)

	// one EDS request/response on a fresh ADS stream; returns the bytes of the resource as sent and the address order
	requestEDS := func(t *testing.T, clusterName string) (string, string) {
		t.Helper()
		ads := s.ConnectADS().WithType(v3.EndpointType)
		defer ads.Cleanup()
		resp := ads.RequestResponseAck(t, &discovery.DiscoveryRequest{ResourceNames: []string{clusterName}})
		if len(resp.Resources) != 1 {
			t.Fatalf("expected 1 resource, got %d", len(resp.Resources))
		}
		cla := xdstest.UnmarshalAny[endpoint.ClusterLoadAssignment](t, resp.Resources[0])
		var addrs []string
		for _, l := range cla.Endpoints {
			for _, e := range l.LbEndpoints {
				addrs = append(addrs, e.GetEndpoint().GetAddress().GetSocketAddress().GetAddress())
			}
		}
		return string(resp.Resources[0].Value), strings.Join(addrs, " ")
	}

	// update only an annotation of the slice and wait until the registry's EDSUpdate reached the endpoint shards
	touch := func(t *testing.T, es *discoveryv1.EndpointSlice, hostname string, i int) {
		t.Helper()
		fx.Clear()
		es = es.DeepCopy()
		es.Annotations = map[string]string{"touch": fmt.Sprint(i)}
		if _, err := s.KubeClient().Kube().DiscoveryV1().EndpointSlices("default").Update(context.Background(), es, metav1.UpdateOptions{}); err != nil {
			t.Fatal(err)
		}
		var handed []*model.IstioEndpoint
		timeout := time.After(5 * time.Second)
		for handed == nil {
			select {
			case e := <-fx.Events:
				if e.Type == "eds" && e.ID == hostname {
					handed = e.Endpoints
				}
			case <-timeout:
				t.Fatalf("timed out waiting for eds event of %s", hostname)
			}
		}
		retry.UntilOrFail(t, func() bool {
			shards, f := s.Discovery.Env.EndpointIndex.ShardsForService(hostname, "default")
			if !f {
				return false
			}
			shards.RLock()
			defer shards.RUnlock()
			for _, eps := range shards.Shards {
				if len(eps) == len(handed) && len(eps) > 0 && eps[0] == handed[0] && eps[len(eps)-1] == handed[len(handed)-1] {
					return true
				}
			}
			return false
		}, retry.Timeout(5*time.Second), retry.Delay(time.Millisecond))
	}

	retry.UntilOrFail(t, func() bool {
		_, m := requestEDS(t, multiCluster)
		_, sg := requestEDS(t, singleCluster)
		return len(strings.Fields(m)) == 12 && len(strings.Fields(sg)) == 6
	}, retry.Timeout(10*time.Second), retry.Delay(10*time.Millisecond))

	multiBytes, multiOrder := map[string]int{}, map[string]int{}
	singleBytes, singleOrder := map[string]int{}, map[string]int{}
	for i := 0; i < iterations; i++ {
		touch(t, multiA, multiHost, i)
		b, o := requestEDS(t, multiCluster)
		if got := len(strings.Fields(o)); got != 12 {
			t.Fatalf("expected 12 endpoints, got %d", got)
		}
		multiBytes[b]++
		multiOrder[o]++
		touch(t, singleA, singleHost, i)
		b, o = requestEDS(t, singleCluster)
		singleBytes[b]++
		singleOrder[o]++
	}
	t.Logf("service with 4 EndpointSlices: %d distinct EDS resources (%d distinct address orders) over %d generations",
		len(multiBytes), len(multiOrder), iterations)
	t.Logf("service with 1 EndpointSlice (control): %d distinct EDS resources (%d distinct address orders) over %d generations",
		len(singleBytes), len(singleOrder), iterations)
	if len(singleBytes) != 1 {
		t.Errorf("control: single-slice service produced %d distinct EDS resources", len(singleBytes))
	}
	if len(multiBytes) != 1 {
		for o, n := range multiOrder {
			t.Logf("  %3dx %s", n, o)
		}
		t.Errorf("unchanged endpoints of a service with 4 EndpointSlices produced %d distinct EDS resources over %d generations",
			len(multiBytes), iterations)
	}
}
