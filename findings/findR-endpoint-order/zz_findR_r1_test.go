// Copyright Istio Authors
//
// Licensed under the Apache License, Version 2.0 (the "License");
// you may not use this file except in compliance with the License.
// You may obtain a copy of the License at
//
//     http://www.apache.org/licenses/LICENSE-2.0
//
// Unless required by applicable law or agreed to in writing, software
// distributed under the License is distributed on an "AS IS" BASIS,
// WITHOUT WARRANTIES OR CONDITIONS OF ANY KIND, either express or implied.
// See the License for the specific language governing permissions and
// limitations under the License.

package controller

import (
	"fmt"
	"strings"
	"testing"
	"time"

	discovery "k8s.io/api/discovery/v1"
	metav1 "k8s.io/apimachinery/pkg/apis/meta/v1"

	"istio.io/istio/pilot/pkg/model"
	"istio.io/istio/pilot/pkg/serviceregistry/kube"
	"istio.io/istio/pilot/pkg/serviceregistry/util/xdsfake"
	"istio.io/istio/pkg/config/host"
	"istio.io/istio/pkg/kube/kclient/clienttest"
	"istio.io/istio/pkg/test/util/retry"
)

const findRIterations = 50

func findRSlice(name, svc, ns string, ready *bool, ips ...string) *discovery.EndpointSlice {
	portName := "tcp-port"
	portNum := int32(8080)
	es := &discovery.EndpointSlice{
		ObjectMeta: metav1.ObjectMeta{
			Name:      name,
			Namespace: ns,
			Labels:    map[string]string{discovery.LabelServiceName: svc},
		},
		AddressType: discovery.AddressTypeIPv4,
		Ports:       []discovery.EndpointPort{{Name: &portName, Port: &portNum}},
	}
	for _, ip := range ips {
		e := discovery.Endpoint{Addresses: []string{ip}}
		if ready != nil {
			f := false
			e.Conditions = discovery.EndpointConditions{Ready: ready, Serving: ready, Terminating: &f}
		}
		es.Endpoints = append(es.Endpoints, e)
	}
	return es
}

func findRAddrs(eps []*model.IstioEndpoint) string {
	out := make([]string, 0, len(eps))
	for _, e := range eps {
		out = append(out, fmt.Sprintf("%s[%v]", e.FirstAddressOrNil(), e.HealthStatus))
	}
	return strings.Join(out, " ")
}

func findRWaitEDS(t *testing.T, fx *xdsfake.Updater, hostname host.Name) []*model.IstioEndpoint {
	t.Helper()
	timeout := time.After(5 * time.Second)
	for {
		select {
		case e := <-fx.Events:
			if e.Type == "eds" && e.ID == string(hostname) {
				return e.Endpoints
			}
		case <-timeout:
			t.Fatalf("timed out waiting for eds event of %s", hostname)
		}
	}
}

// TestFindR_R1_EndpointSliceOrder: a Service backed by several EndpointSlices. Nothing in the cluster changes
// (apart from an annotation "touch" of one slice that leaves every endpoint as is), yet the endpoint list the
// kube registry computes - and hands over to the endpoint shards through EDSUpdate - comes out in a different order
// from one computation to the next, because endpointSliceCache.get ranges over a map keyed by slice name.
func TestFindR_R1_EndpointSliceOrder(t *testing.T) {
	const ns = "nsa"
	controller, fx := NewFakeControllerWithOptions(t, FakeControllerOptions{})
	createServiceWait(controller, "multi", ns, []string{"10.0.0.1"}, nil, nil, []int32{8080}, nil, t)
	createServiceWait(controller, "single", ns, []string{"10.0.0.2"}, nil, nil, []int32{8080}, nil, t)
	hostMulti := kube.ServiceHostname("multi", ns, controller.opts.DomainSuffix)
	hostSingle := kube.ServiceHostname("single", ns, controller.opts.DomainSuffix)

	eps := clienttest.Wrap(t, controller.endpoints.slices)
	multiA := findRSlice("multi-a", "multi", ns, nil, "10.1.0.1", "10.1.0.2", "10.1.0.3")
	eps.Create(multiA)
	eps.Create(findRSlice("multi-b", "multi", ns, nil, "10.1.1.1", "10.1.1.2", "10.1.1.3"))
	eps.Create(findRSlice("multi-c", "multi", ns, nil, "10.1.2.1", "10.1.2.2", "10.1.2.3"))
	eps.Create(findRSlice("multi-d", "multi", ns, nil, "10.1.3.1", "10.1.3.2", "10.1.3.3"))
	singleA := findRSlice("single-a", "single", ns, nil, "10.2.0.1", "10.2.0.2", "10.2.0.3", "10.2.0.4", "10.2.0.5", "10.2.0.6")
	eps.Create(singleA)
	retry.UntilOrFail(t, func() bool {
		return len(controller.endpoints.endpointCache.Get(hostMulti)) == 12 && len(controller.endpoints.endpointCache.Get(hostSingle)) == 6
	}, retry.Timeout(5*time.Second), retry.Delay(time.Millisecond))

	t.Run("cache read", func(t *testing.T) {
		multi, single := map[string]int{}, map[string]int{}
		for i := 0; i < findRIterations; i++ {
			multi[findRAddrs(controller.endpoints.endpointCache.Get(hostMulti))]++
			single[findRAddrs(controller.endpoints.endpointCache.Get(hostSingle))]++
		}
		t.Logf("4 slices: %d distinct endpoint orders over %d reads; 1 slice (control): %d", len(multi), findRIterations, len(single))
		if len(single) != 1 {
			t.Errorf("control: single-slice service gave %d distinct orders", len(single))
		}
		if len(multi) != 1 {
			for k, n := range multi {
				t.Logf("  %3dx %s", n, k)
			}
			t.Errorf("the same 4 EndpointSlices gave %d distinct endpoint orders over %d reads", len(multi), findRIterations)
		}
	})

	t.Run("list handed to the endpoint shards", func(t *testing.T) {
		// drain whatever is left from the setup
		fx.Clear()
		multi, single := map[string]int{}, map[string]int{}
		for i := 0; i < findRIterations; i++ {
			// touch: no endpoint changes
			m := multiA.DeepCopy()
			m.Annotations = map[string]string{"touch": fmt.Sprint(i)}
			eps.Update(m)
			multi[findRAddrs(findRWaitEDS(t, fx, hostMulti))]++
			s := singleA.DeepCopy()
			s.Annotations = map[string]string{"touch": fmt.Sprint(i)}
			eps.Update(s)
			single[findRAddrs(findRWaitEDS(t, fx, hostSingle))]++
		}
		t.Logf("4 slices: %d distinct EDSUpdate endpoint orders over %d no-op slice updates; 1 slice (control): %d", len(multi), findRIterations, len(single))
		if len(single) != 1 {
			t.Errorf("control: single-slice service gave %d distinct orders", len(single))
		}
		if len(multi) != 1 {
			t.Errorf("the same 4 EndpointSlices gave %d distinct EDSUpdate endpoint orders over %d no-op slice updates", len(multi), findRIterations)
		}
	})
}

// TestFindR_R1_DuplicateWinner: while an endpoint moves from one slice to another it is listed in both
// (https://kubernetes.io/docs/concepts/services-networking/endpoint-slices/#duplicate-endpoints), possibly with
// different conditions. get() keeps "the first one", in map iteration order: the *content* of the endpoint
// (here its health, hence whether EDS sends it at all) is picked at random for the same set of objects.
func TestFindR_R1_DuplicateWinner(t *testing.T) {
	const ns = "nsa"
	controller, _ := NewFakeControllerWithOptions(t, FakeControllerOptions{})
	createServiceWait(controller, "dup", ns, []string{"10.0.0.1"}, nil, nil, []int32{8080}, nil, t)
	hostDup := kube.ServiceHostname("dup", ns, controller.opts.DomainSuffix)
	eps := clienttest.Wrap(t, controller.endpoints.slices)
	yes, no := true, false
	eps.Create(findRSlice("dup-a", "dup", ns, &yes, "10.3.0.1", "10.3.0.9"))
	eps.Create(findRSlice("dup-b", "dup", ns, &no, "10.3.0.2", "10.3.0.9"))
	retry.UntilOrFail(t, func() bool {
		return len(controller.endpoints.endpointCache.Get(hostDup)) == 3
	}, retry.Timeout(5*time.Second), retry.Delay(time.Millisecond))

	health := map[model.HealthStatus]int{}
	for i := 0; i < findRIterations; i++ {
		for _, ep := range controller.endpoints.endpointCache.Get(hostDup) {
			if ep.FirstAddressOrNil() == "10.3.0.9" {
				health[ep.HealthStatus]++
			}
		}
	}
	t.Logf("health of the duplicated endpoint 10.3.0.9 over %d reads: %v", findRIterations, health)
	if len(health) != 1 {
		t.Errorf("the duplicated endpoint was reported with %d different health values for the same slices: %v", len(health), health)
	}
}
