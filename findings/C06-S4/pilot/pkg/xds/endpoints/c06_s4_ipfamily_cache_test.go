// Copyright Istio Authors
//
// Licensed under the Apache License, Version 2.0 (the "License");
// you may not use this file except in compliance with the License.
// You may obtain a copy of the License at
//
//     http://www.apache.org/licenses/LICENSE-2.0
//
// Unless required by applicable law or agreed to in writing, software
// distributed under the License is distributed on an "AS IS" BASIS,
// WITHOUT WARRANTIES OR CONDITIONS OF ANY KIND, either express or implied.
// See the License for the specific language governing permissions and
// limitations under the License.

package endpoints_test

import (
	"fmt"
	"sort"
	"strings"
	"testing"
	"time"

	endpoint "github.com/envoyproxy/go-control-plane/envoy/config/endpoint/v3"
	"google.golang.org/protobuf/proto"

	"istio.io/istio/pilot/pkg/model"
	pilotxds "istio.io/istio/pilot/pkg/xds"
	"istio.io/istio/pilot/pkg/xds/endpoints"
	"istio.io/istio/pilot/test/xds"
	"istio.io/istio/pkg/config/protocol"
	"istio.io/istio/pkg/util/sets"
)

const c06S4Cluster = "outbound|80||example.ns.svc.cluster.local"

func c06S4Addrs(cla *endpoint.ClusterLoadAssignment) string {
	var out []string
	for _, l := range cla.GetEndpoints() {
		for _, e := range l.GetLbEndpoints() {
			out = append(out, fmt.Sprintf("%s(w=%d)", e.GetEndpoint().GetAddress().GetSocketAddress().GetAddress(), e.GetLoadBalancingWeight().GetValue()))
		}
	}
	sort.Strings(out)
	if len(out) == 0 {
		return "<no endpoints>"
	}
	return strings.Join(out, " ")
}

// TestC06S4GatewayIPFamilyEdsCache: in a multi-network mesh where the remote network is reachable through an IPv4 and an
// IPv6 east-west gateway address, an IPv4-only, an IPv6-only and a dual-stack sidecar that agree on every attribute
// hashed by EndpointBuilder.WriteHash must each get the ClusterLoadAssignment a fresh generation would give them.
func TestC06S4GatewayIPFamilyEdsCache(t *testing.T) {
	ds := xds.NewFakeDiscoveryServer(t, xds.FakeOptions{
		Services: []*model.Service{{
			Hostname:   "example.ns.svc.cluster.local",
			Attributes: model.ServiceAttributes{Name: "example", Namespace: "ns"},
			Ports:      model.PortList{{Port: 80, Protocol: protocol.HTTP, Name: "http"}},
		}},
		Gateways: []model.NetworkGateway{
			{Network: "network1", Cluster: "cluster1", Addr: "1.1.1.1", Port: 15443},
			{Network: "network2", Cluster: "cluster2", Addr: "2.2.2.2", Port: 15443},
			{Network: "network2", Cluster: "cluster2", Addr: "2001:db8:2::1", Port: 15443},
		},
	})
	ds.Env().InitNetworksManager(ds.Discovery)

	newIndex := func(cache model.XdsCache) *model.EndpointIndex {
		shards := model.NewEndpointIndex(cache)
		svc, _ := shards.GetOrCreateEndpointShard("example.ns.svc.cluster.local", "ns")
		svc.Lock()
		svc.Shards[model.ShardKey{Cluster: "cluster2"}] = []*model.IstioEndpoint{{
			Network: "network2", Addresses: []string{"20.0.0.1"},
			ServicePortName: "http", Namespace: "ns",
			HostName: "example.ns.svc.cluster.local", EndpointPort: 8080,
			TLSMode: "istio", Labels: map[string]string{"app": "example"},
			Locality: model.Locality{ClusterID: "cluster2"},
		}}
		svc.Unlock()
		return shards
	}

	mk := func(id string, ips ...string) func() *model.Proxy {
		return func() *model.Proxy {
			return ds.SetupProxy(&model.Proxy{
				ID:          id,
				IPAddresses: ips,
				Metadata:    &model.NodeMetadata{Network: "network1", ClusterID: "cluster1"},
			})
		}
	}
	proxies := map[string]func() *model.Proxy{
		"v4":   mk("v4.ns", "10.0.0.1"),
		"v6":   mk("v6.ns", "2001:db8::10"),
		"dual": mk("dual.ns", "10.0.0.2", "2001:db8::11"),
	}

	// newGen builds the real EDS generator (same code path as a push) on top of the given cache.
	newGen := func(cache model.XdsCache) *pilotxds.EdsGenerator {
		return &pilotxds.EdsGenerator{Cache: cache, EndpointIndex: newIndex(cache)}
	}
	generate := func(t *testing.T, gen *pilotxds.EdsGenerator, p *model.Proxy) *endpoint.ClusterLoadAssignment {
		t.Helper()
		res, _, err := gen.Generate(p,
			&model.WatchedResource{ResourceNames: sets.New(c06S4Cluster)},
			&model.PushRequest{Push: ds.PushContext(), Start: time.Now(), Forced: true})
		if err != nil {
			t.Fatal(err)
		}
		if len(res) != 1 {
			t.Fatalf("expected 1 resource, got %d", len(res))
		}
		cla := &endpoint.ClusterLoadAssignment{}
		if err := res[0].Resource.UnmarshalTo(cla); err != nil {
			t.Fatal(err)
		}
		return cla
	}

	// The three proxies have the same EDS cache key.
	keys := map[string]any{}
	for n, p := range proxies {
		b := endpoints.NewEndpointBuilder(c06S4Cluster, p(), ds.PushContext())
		keys[n] = b.Key()
	}
	t.Logf("EDS cache keys: %v", keys)
	if keys["v4"] != keys["v6"] || keys["v4"] != keys["dual"] {
		t.Logf("note: cache keys differ, the proxies do not share entries")
	}

	want := map[string]*endpoint.ClusterLoadAssignment{}
	for n, p := range proxies {
		want[n] = generate(t, newGen(model.DisabledCache{}), p())
		t.Logf("fresh for %-4s proxy: %s", n, c06S4Addrs(want[n]))
	}
	if proto.Equal(want["v4"], want["v6"]) || proto.Equal(want["v4"], want["dual"]) {
		t.Fatalf("precondition failed: the proxy IP family does not influence the load assignment")
	}

	for _, pair := range [][2]string{{"v4", "v6"}, {"v6", "v4"}, {"v4", "dual"}, {"dual", "v4"}, {"dual", "v6"}} {
		warm, read := pair[0], pair[1]
		t.Run(fmt.Sprintf("%s warms cache, %s reads", warm, read), func(t *testing.T) {
			gen := newGen(model.NewXdsCache()) // one generator, one shared cache, as in istiod
			_ = generate(t, gen, proxies[warm]())
			got := generate(t, gen, proxies[read]())
			if !proto.Equal(got, want[read]) {
				t.Errorf("%s proxy served after %s proxy warmed the shared EDS cache differs from fresh generation:\n got: %s\nwant: %s",
					read, warm, c06S4Addrs(got), c06S4Addrs(want[read]))
			}
		})
	}
}
