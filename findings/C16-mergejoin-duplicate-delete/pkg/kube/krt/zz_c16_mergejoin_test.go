// Copyright Istio Authors
//
// Licensed under the Apache License, Version 2.0 (the "License");
// you may not use this file except in compliance with the License.
// You may obtain a copy of the License at
//
//     http://www.apache.org/licenses/LICENSE-2.0
//
// Unless required by applicable law or agreed to in writing, software
// distributed under the License is distributed on an "AS IS" BASIS,
// WITHOUT WARRANTIES OR CONDITIONS OF ANY KIND, either express or implied.
// See the License for the specific language governing permissions and
// limitations under the License.

package krt_test

import (
	"fmt"
	"sync"
	"testing"
	"time"

	"istio.io/istio/pkg/kube/krt"
)

// C16: "each subscriber sees ... no update or delete of an unknown key ... replaying the stream reproduces the final
// contents". A JoinWithMergeCollection over two inputs; one object is added and then deleted. The subscriber must see
// exactly one add and one delete for it.
func TestC16MergeJoinDeleteIsDeliveredOnce(t *testing.T) {
	opts := testOptions(t)
	c1 := krt.NewStaticCollection[NamedValue](nil, nil, opts.WithName("c1")...)
	c2 := krt.NewStaticCollection[NamedValue](nil, nil, opts.WithName("c2")...)
	merged := krt.JoinWithMergeCollection(
		[]krt.Collection[NamedValue]{c1, c2},
		func(ts []NamedValue) *NamedValue {
			if len(ts) == 0 {
				return nil
			}
			out := ts[0]
			return &out
		},
		opts.WithName("merged")...,
	)
	var mu sync.Mutex
	var stream []string
	known := map[string]bool{}
	var violations []string
	merged.RegisterBatch(func(evs []krt.Event[NamedValue]) {
		mu.Lock()
		defer mu.Unlock()
		for _, e := range evs {
			k := e.Latest().ResourceName()
			stream = append(stream, fmt.Sprintf("%v/%s", e.Event, k))
			switch e.Event.String() {
			case "add":
				if known[k] {
					violations = append(violations, "duplicate add of "+k)
				}
				known[k] = true
			case "update":
				if !known[k] {
					violations = append(violations, "update of unknown key "+k)
				}
			case "delete":
				if !known[k] {
					violations = append(violations, "delete of unknown key "+k)
				}
				delete(known, k)
			}
		}
	}, true)
	merged.WaitUntilSynced(opts.Stop())

	obj := NamedValue{Named: Named{"ns", "a"}, Value: "v1"}
	c1.UpdateObject(obj)
	waitFor(t, func() bool { return merged.GetKey("ns/a") != nil })
	c1.DeleteObject("ns/a")
	waitFor(t, func() bool { return merged.GetKey("ns/a") == nil })
	// let the handler queue drain
	time.Sleep(200 * time.Millisecond)

	mu.Lock()
	defer mu.Unlock()
	t.Logf("event stream: %v", stream)
	if len(violations) > 0 {
		t.Fatalf("subscriber saw an inconsistent stream: %v (stream %v)", violations, stream)
	}
	if len(known) != 0 {
		t.Fatalf("replaying the stream leaves %v, collection is empty", known)
	}
}

func waitFor(t *testing.T, f func() bool) {
	t.Helper()
	for i := 0; i < 200; i++ {
		if f() {
			return
		}
		time.Sleep(10 * time.Millisecond)
	}
	t.Fatal("timed out")
}
