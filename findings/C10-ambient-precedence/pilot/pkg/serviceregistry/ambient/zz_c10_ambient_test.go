// Copyright Istio Authors
//
// Licensed under the Apache License, Version 2.0 (the "License");
// you may not use this file except in compliance with the License.
// You may obtain a copy of the License at
//
//     http://www.apache.org/licenses/LICENSE-2.0
//
// Unless required by applicable law or agreed to in writing, software
// distributed under the License is distributed on an "AS IS" BASIS,
// WITHOUT WARRANTIES OR CONDITIONS OF ANY KIND, either express or implied.
// See the License for the specific language governing permissions and
// limitations under the License.

package ambient

// Property C10: the mutual-TLS mode that applies to a workload port is the mode of the most specific
// PeerAuthentication that sets one (port > workload > namespace > mesh, UNSET inherits from the next wider
// level). The sidecar path (authn.ComposePeerAuthentication) and the ambient/ztunnel conversion
// (convertPeerAuthentication + convertedSelectorPeerAuthentications + the static strict policy) must
// derive the same mode.
//
// The tests below evaluate the L4 DENY policies that a ztunnel would hold for the workload and ask, per port:
// "is a plaintext (no peer principal) connection denied?". That must be true exactly when the effective
// mode of the port is STRICT.

import (
	"fmt"
	"sort"
	"strings"
	"testing"
	"time"

	metav1 "k8s.io/apimachinery/pkg/apis/meta/v1"

	auth "istio.io/api/security/v1beta1"
	"istio.io/api/type/v1beta1"
	clientsecurityv1beta1 "istio.io/client-go/pkg/apis/security/v1"
	"istio.io/istio/pilot/pkg/model"
	"istio.io/istio/pilot/pkg/security/authn"
	"istio.io/istio/pkg/config"
	"istio.io/istio/pkg/config/schema/gvk"
	"istio.io/istio/pkg/config/schema/kind"
	"istio.io/istio/pkg/kube/controllers"
	"istio.io/istio/pkg/test/util/assert"
	"istio.io/istio/pkg/workloadapi/security"
)

const (
	c10Strict     = auth.PeerAuthentication_MutualTLS_STRICT
	c10Permissive = auth.PeerAuthentication_MutualTLS_PERMISSIVE
	c10Disable    = auth.PeerAuthentication_MutualTLS_DISABLE
	c10Unset      = auth.PeerAuthentication_MutualTLS_UNSET
)

// c10Level describes the policy at one level. present=false means "no policy object at this level".
// present=true with nilMtls means the object exists but has no mtls block (== UNSET).
type c10Level struct {
	present bool
	nilMtls bool
	mode    auth.PeerAuthentication_MutualTLS_Mode
}

func c10None() c10Level { return c10Level{} }

func c10Mode(m auth.PeerAuthentication_MutualTLS_Mode) c10Level {
	return c10Level{present: true, mode: m}
}

// c10NoMtlsBlock is a policy object that exists but does not say anything about mtls.
func c10NoMtlsBlock() c10Level { return c10Level{present: true, nilMtls: true} }

func (l c10Level) mtls() *auth.PeerAuthentication_MutualTLS {
	if l.nilMtls {
		return nil
	}
	return &auth.PeerAuthentication_MutualTLS{Mode: l.mode}
}

func (l c10Level) String() string {
	switch {
	case !l.present:
		return "absent"
	case l.nilMtls:
		return "present(no mtls block)"
	default:
		return l.mode.String()
	}
}

type c10Case struct {
	name string
	// suspect is 1 or 2 for the configurations that expose a suspect, 0 for a control that must always pass.
	suspect  int
	workload c10Level // workload-level (selector) mode; always present
	ports    map[uint32]auth.PeerAuthentication_MutualTLS_Mode
	ns       c10Level
	mesh     c10Level
	// wantStrict is the hand-derived answer demanded by the property: port -> effective mode is STRICT.
	// Port 8080 never has a port-level entry so it shows the inherited (workload-level) mode.
	wantStrict map[uint32]bool
}

var c10Cases = []c10Case{
	// ---------------------------------------------------------------- suspect 1
	{
		name:     "S1 workload PERMISSIVE, port 9090 STRICT, no namespace policy, mesh STRICT",
		suspect:  1,
		workload: c10Mode(c10Permissive),
		ports:    map[uint32]auth.PeerAuthentication_MutualTLS_Mode{9090: c10Strict},
		ns:       c10None(),
		mesh:     c10Mode(c10Strict),
		// port-level STRICT wins on 9090; 8080 takes workload-level PERMISSIVE (which overrides mesh STRICT)
		wantStrict: map[uint32]bool{9090: true, 8080: false},
	},
	{
		name:       "S1 workload DISABLE, port 9090 STRICT, no namespace policy, mesh STRICT",
		suspect:    1,
		workload:   c10Mode(c10Disable),
		ports:      map[uint32]auth.PeerAuthentication_MutualTLS_Mode{9090: c10Strict},
		ns:         c10None(),
		mesh:       c10Mode(c10Strict),
		wantStrict: map[uint32]bool{9090: true, 8080: false},
	},
	{
		name:       "S1 workload PERMISSIVE, port 9090 STRICT, namespace present UNSET, mesh STRICT",
		suspect:    1,
		workload:   c10Mode(c10Permissive),
		ports:      map[uint32]auth.PeerAuthentication_MutualTLS_Mode{9090: c10Strict},
		ns:         c10Mode(c10Unset),
		mesh:       c10Mode(c10Strict),
		wantStrict: map[uint32]bool{9090: true, 8080: false},
	},
	{
		name:     "S1 control: workload UNSET, port 9090 STRICT, no namespace policy, mesh STRICT",
		workload: c10NoMtlsBlock(),
		ports:    map[uint32]auth.PeerAuthentication_MutualTLS_Mode{9090: c10Strict},
		ns:       c10None(),
		mesh:     c10Mode(c10Strict),
		// everything inherits mesh STRICT; the port needs no rule of its own (comment case #3)
		wantStrict: map[uint32]bool{9090: true, 8080: true},
	},
	{
		name:       "S1 control: workload PERMISSIVE, port 9090 STRICT, no namespace policy, mesh PERMISSIVE",
		workload:   c10Mode(c10Permissive),
		ports:      map[uint32]auth.PeerAuthentication_MutualTLS_Mode{9090: c10Strict},
		ns:         c10None(),
		mesh:       c10Mode(c10Permissive),
		wantStrict: map[uint32]bool{9090: true, 8080: false},
	},
	{
		name:       "S1 control: workload PERMISSIVE, port 9090 STRICT, namespace PERMISSIVE, mesh STRICT",
		workload:   c10Mode(c10Permissive),
		ports:      map[uint32]auth.PeerAuthentication_MutualTLS_Mode{9090: c10Strict},
		ns:         c10Mode(c10Permissive),
		mesh:       c10Mode(c10Strict),
		wantStrict: map[uint32]bool{9090: true, 8080: false},
	},
	{
		name:       "S1 control: workload PERMISSIVE, port 9090 STRICT, no namespace policy, no mesh policy",
		workload:   c10Mode(c10Permissive),
		ports:      map[uint32]auth.PeerAuthentication_MutualTLS_Mode{9090: c10Strict},
		ns:         c10None(),
		mesh:       c10None(),
		wantStrict: map[uint32]bool{9090: true, 8080: false},
	},
	// ---------------------------------------------------------------- suspect 2
	{
		name:     "S2 workload UNSET, port 9090 PERMISSIVE, namespace present (no mtls block), mesh STRICT",
		suspect:  2,
		workload: c10NoMtlsBlock(),
		ports:    map[uint32]auth.PeerAuthentication_MutualTLS_Mode{9090: c10Permissive},
		ns:       c10NoMtlsBlock(),
		mesh:     c10Mode(c10Strict),
		// namespace UNSET inherits mesh STRICT, workload UNSET inherits that; 9090 is exempted by port-level PERMISSIVE
		wantStrict: map[uint32]bool{9090: false, 8080: true},
	},
	{
		name:       "S2 workload UNSET, port 9090 PERMISSIVE, namespace present mode UNSET, mesh STRICT",
		suspect:    2,
		workload:   c10Mode(c10Unset),
		ports:      map[uint32]auth.PeerAuthentication_MutualTLS_Mode{9090: c10Permissive},
		ns:         c10Mode(c10Unset),
		mesh:       c10Mode(c10Strict),
		wantStrict: map[uint32]bool{9090: false, 8080: true},
	},
	{
		name:       "S2 control: workload UNSET, port 9090 PERMISSIVE, no namespace policy, mesh STRICT",
		workload:   c10NoMtlsBlock(),
		ports:      map[uint32]auth.PeerAuthentication_MutualTLS_Mode{9090: c10Permissive},
		ns:         c10None(),
		mesh:       c10Mode(c10Strict),
		wantStrict: map[uint32]bool{9090: false, 8080: true},
	},
	{
		name:       "S2 control: workload UNSET, port 9090 PERMISSIVE, namespace STRICT, mesh STRICT",
		workload:   c10NoMtlsBlock(),
		ports:      map[uint32]auth.PeerAuthentication_MutualTLS_Mode{9090: c10Permissive},
		ns:         c10Mode(c10Strict),
		mesh:       c10Mode(c10Strict),
		wantStrict: map[uint32]bool{9090: false, 8080: true},
	},
	{
		name:       "S2 control: workload UNSET, port 9090 PERMISSIVE, namespace present UNSET, mesh PERMISSIVE",
		workload:   c10NoMtlsBlock(),
		ports:      map[uint32]auth.PeerAuthentication_MutualTLS_Mode{9090: c10Permissive},
		ns:         c10Mode(c10Unset),
		mesh:       c10Mode(c10Permissive),
		wantStrict: map[uint32]bool{9090: false, 8080: false},
	},
	{
		name:       "S2 control: workload UNSET, port 9090 PERMISSIVE, namespace present UNSET, no mesh policy",
		workload:   c10NoMtlsBlock(),
		ports:      map[uint32]auth.PeerAuthentication_MutualTLS_Mode{9090: c10Permissive},
		ns:         c10Mode(c10Unset),
		mesh:       c10None(),
		wantStrict: map[uint32]bool{9090: false, 8080: false},
	},
	{
		name:       "S2 control: workload UNSET, port 9090 PERMISSIVE, namespace PERMISSIVE, mesh STRICT",
		workload:   c10NoMtlsBlock(),
		ports:      map[uint32]auth.PeerAuthentication_MutualTLS_Mode{9090: c10Permissive},
		ns:         c10Mode(c10Permissive),
		mesh:       c10Mode(c10Strict),
		wantStrict: map[uint32]bool{9090: false, 8080: false},
	},
}

func init() {
	c10Cases = append(c10Cases,
		// ------------------------------------------------------------ suspect 3 (C10-R7)
		c10Case{
			name:     "S3 workload UNSET, port 9090 DISABLE, no namespace policy, mesh STRICT",
			suspect:  3,
			workload: c10NoMtlsBlock(),
			ports:    map[uint32]auth.PeerAuthentication_MutualTLS_Mode{9090: c10Disable},
			ns:       c10None(),
			mesh:     c10Mode(c10Strict),
			// port-level DISABLE wins on 9090; 8080 inherits mesh STRICT
			wantStrict: map[uint32]bool{9090: false, 8080: true},
		},
		c10Case{
			name:       "S3 workload UNSET, port 9090 DISABLE, namespace STRICT, no mesh policy",
			suspect:    3,
			workload:   c10NoMtlsBlock(),
			ports:      map[uint32]auth.PeerAuthentication_MutualTLS_Mode{9090: c10Disable},
			ns:         c10Mode(c10Strict),
			mesh:       c10None(),
			wantStrict: map[uint32]bool{9090: false, 8080: true},
		},
		c10Case{
			name:       "S3 control: workload UNSET, port 9090 PERMISSIVE, no namespace policy, mesh STRICT",
			workload:   c10NoMtlsBlock(),
			ports:      map[uint32]auth.PeerAuthentication_MutualTLS_Mode{9090: c10Permissive},
			ns:         c10None(),
			mesh:       c10Mode(c10Strict),
			wantStrict: map[uint32]bool{9090: false, 8080: true},
		},
		c10Case{
			name:       "S3 control: workload STRICT, port 9090 DISABLE, no namespace policy, mesh STRICT",
			workload:   c10Mode(c10Strict),
			ports:      map[uint32]auth.PeerAuthentication_MutualTLS_Mode{9090: c10Disable},
			ns:         c10None(),
			mesh:       c10Mode(c10Strict),
			wantStrict: map[uint32]bool{9090: false, 8080: true},
		},
	)
}

var c10ProbePorts = []uint32{8080, 9090}

const (
	c10WorkloadPolicyName = "selector"
	c10NsPolicyName       = "namespace"
	c10MeshPolicyName     = "global"
)

func c10Labels() map[string]string { return map[string]string{"app": "a"} }

// c10Objects builds the typed PeerAuthentication objects for a case (nil for an absent level).
func c10Objects(c c10Case) (workload, ns, mesh *clientsecurityv1beta1.PeerAuthentication) {
	ports := map[uint32]*auth.PeerAuthentication_MutualTLS{}
	for p, m := range c.ports {
		ports[p] = &auth.PeerAuthentication_MutualTLS{Mode: m}
	}
	ts := metav1.NewTime(time.Unix(1000, 0))
	workload = &clientsecurityv1beta1.PeerAuthentication{
		ObjectMeta: metav1.ObjectMeta{Name: c10WorkloadPolicyName, Namespace: testNS, CreationTimestamp: ts},
		Spec: auth.PeerAuthentication{
			Selector:      &v1beta1.WorkloadSelector{MatchLabels: c10Labels()},
			Mtls:          c.workload.mtls(),
			PortLevelMtls: ports,
		},
	}
	if c.ns.present {
		ns = &clientsecurityv1beta1.PeerAuthentication{
			ObjectMeta: metav1.ObjectMeta{Name: c10NsPolicyName, Namespace: testNS, CreationTimestamp: ts},
			Spec:       auth.PeerAuthentication{Mtls: c.ns.mtls()},
		}
	}
	if c.mesh.present {
		mesh = &clientsecurityv1beta1.PeerAuthentication{
			ObjectMeta: metav1.ObjectMeta{Name: c10MeshPolicyName, Namespace: systemNS, CreationTimestamp: ts},
			Spec:       auth.PeerAuthentication{Mtls: c.mesh.mtls()},
		}
	}
	return workload, ns, mesh
}

// c10SidecarStrict is the sidecar-side answer: the real ComposePeerAuthentication used by the inbound
// filter chain builder (MtlsPolicy applier) and, via the same precedence, by auto-mTLS.
func c10SidecarStrict(objs ...*clientsecurityv1beta1.PeerAuthentication) map[uint32]bool {
	var cfgs []*config.Config
	for _, o := range objs {
		if o == nil {
			continue
		}
		cfgs = append(cfgs, &config.Config{
			Meta: config.Meta{
				GroupVersionKind:  gvk.PeerAuthentication,
				Name:              o.Name,
				Namespace:         o.Namespace,
				CreationTimestamp: o.CreationTimestamp.Time,
			},
			Spec: &o.Spec,
		})
	}
	merged := authn.ComposePeerAuthentication(systemNS, cfgs)
	res := map[uint32]bool{}
	for _, p := range c10ProbePorts {
		m := merged.Mode
		if pm, f := merged.PerPort[p]; f {
			m = pm
		}
		res[p] = m == model.MTLSStrict
	}
	return res
}

// c10MatchHits evaluates one security.Match for an inbound connection to dstPort that is either plaintext
// (hasPrincipal=false) or mTLS. Only the fields that the PeerAuthentication conversion emits are supported;
// anything else fails the test so a silently ignored condition cannot hide a result.
func c10MatchHits(t *testing.T, m *security.Match, dstPort uint32, hasPrincipal bool) bool {
	t.Helper()
	if len(m.Namespaces)+len(m.NotNamespaces)+len(m.ServiceAccounts)+len(m.NotServiceAccounts)+len(m.Principals)+
		len(m.SourceIps)+len(m.NotSourceIps)+len(m.DestinationIps)+len(m.NotDestinationIps) > 0 {
		t.Fatalf("unsupported match field in %v", m)
	}
	if len(m.NotPrincipals) > 0 {
		for _, sm := range m.NotPrincipals {
			if _, ok := sm.MatchType.(*security.StringMatch_Presence); !ok {
				t.Fatalf("unsupported notPrincipals matcher in %v", m)
			}
		}
		// principals{presence} matches any authenticated peer; the negation matches plaintext only
		if hasPrincipal {
			return false
		}
	}
	if len(m.DestinationPorts) > 0 {
		found := false
		for _, p := range m.DestinationPorts {
			found = found || p == dstPort
		}
		if !found {
			return false
		}
	}
	if len(m.NotDestinationPorts) > 0 {
		for _, p := range m.NotDestinationPorts {
			if p == dstPort {
				return false
			}
		}
	}
	return true
}

// c10PolicyDenies: groups are OR-ed, rules inside a group are AND-ed, matches inside a rule are OR-ed.
func c10PolicyDenies(t *testing.T, pol *security.Authorization, dstPort uint32, hasPrincipal bool) bool {
	t.Helper()
	if pol == nil || pol.Action != security.Action_DENY {
		return false
	}
	for _, g := range pol.Groups {
		groupHit := true
		for _, r := range g.Rules {
			ruleHit := false
			for _, m := range r.Matches {
				ruleHit = ruleHit || c10MatchHits(t, m, dstPort, hasPrincipal)
			}
			groupHit = groupHit && ruleHit
		}
		if groupHit {
			return true
		}
	}
	return false
}

// c10StaticStrict is the policy that policies.go DefaultPolicy publishes under staticStrictPolicyName.
func c10StaticStrict() *security.Authorization {
	return &security.Authorization{
		Name:      staticStrictPolicyName,
		Namespace: systemNS,
		Scope:     security.Scope_WORKLOAD_SELECTOR,
		Action:    security.Action_DENY,
		Groups: []*security.Group{{Rules: []*security.Rules{{Matches: []*security.Match{{
			NotPrincipals: []*security.StringMatch{{MatchType: &security.StringMatch_Presence{}}},
		}}}}}},
	}
}

func c10Render(m map[uint32]bool) string {
	ports := make([]int, 0, len(m))
	for p := range m {
		ports = append(ports, int(p))
	}
	sort.Ints(ports)
	var sb []string
	for _, p := range ports {
		v := "plaintext-allowed"
		if m[uint32(p)] {
			v = "STRICT"
		}
		sb = append(sb, fmt.Sprintf("%d=%s", p, v))
	}
	return strings.Join(sb, " ")
}

func c10ConvertedName() string {
	return testNS + "/" + model.GetAmbientPolicyConfigName(model.ConfigKey{
		Kind:      kind.PeerAuthentication,
		Name:      c10WorkloadPolicyName,
		Namespace: testNS,
	})
}

// TestC10AmbientPeerAuthenticationPrecedence_Direct calls the two real conversion functions with exactly the
// arguments that policies.go:241 and workloads.go:875 would pass, and then plays ztunnel: the workload is
// protected by the DENY policies whose names are attached to it and that actually exist.
func TestC10AmbientPeerAuthenticationPrecedence_Direct(t *testing.T) {
	for _, c := range c10Cases {
		t.Run(c.name, func(t *testing.T) {
			workload, ns, mesh := c10Objects(c)

			// The hand-derived expectation and the sidecar implementation must agree, otherwise the test is wrong.
			sidecar := c10SidecarStrict(workload, ns, mesh)
			assert.Equal(t, c10Render(sidecar), c10Render(c.wantStrict), "sidecar (ComposePeerAuthentication) disagrees with the hand-derived expectation")

			// What is published: the converted policy (may be nil) and the static strict policy.
			converted := convertPeerAuthentication(systemNS, workload, ns, mesh)
			published := map[string]*security.Authorization{
				systemNS + "/" + staticStrictPolicyName: c10StaticStrict(),
			}
			if converted != nil {
				assert.Equal(t, converted.Namespace+"/"+converted.Name, c10ConvertedName())
				published[c10ConvertedName()] = converted
			}

			// What the workload references.
			var all []*clientsecurityv1beta1.PeerAuthentication
			for _, o := range []*clientsecurityv1beta1.PeerAuthentication{workload, ns, mesh} {
				if o != nil {
					all = append(all, o)
				}
			}
			attached := convertedSelectorPeerAuthentications(systemNS, all)

			ambient := map[uint32]bool{}
			for _, p := range c10ProbePorts {
				ambient[p] = false
			}
			var dangling []string
			for _, name := range attached {
				if published[name] == nil {
					dangling = append(dangling, name)
				}
			}
			for _, p := range c10ProbePorts {
				for _, name := range attached {
					if c10PolicyDenies(t, published[name], p, false) {
						ambient[p] = true
					}
					if c10PolicyDenies(t, published[name], p, true) {
						t.Errorf("policy %s denies an mTLS connection to port %d", name, p)
					}
				}
			}
			t.Logf("workload=%v ports=%v ns=%v mesh=%v", c.workload, c.ports, c.ns, c.mesh)
			t.Logf("convertPeerAuthentication -> %v", converted)
			t.Logf("workload AuthorizationPolicies -> %v (dangling: %v)", attached, dangling)
			t.Logf("sidecar : %s", c10Render(sidecar))
			t.Logf("ambient : %s", c10Render(ambient))
			if got, want := c10Render(ambient), c10Render(c.wantStrict); got != want {
				t.Errorf("ambient enforcement differs from the effective PeerAuthentication mode (suspect %d)\n got: %s\nwant: %s", c.suspect, got, want)
			}
			if len(dangling) > 0 {
				t.Errorf("workload references policies that are never published: %v", dangling)
			}
		})
	}
}

// TestC10AmbientPeerAuthenticationPrecedence_Index drives the same configurations through the real krt
// collections (PeerAuthDerivedPolicies, DefaultPolicy, workload builder) of the ambient index.
func TestC10AmbientPeerAuthenticationPrecedence_Index(t *testing.T) {
	for _, c := range c10Cases {
		t.Run(c.name, func(t *testing.T) {
			s := newAmbientTestServer(t, testC, testNW, "")
			setupPolicyTest(t, s) // pod1 127.0.0.1 in ns1 with app=a

			if c.mesh.present {
				s.addPolicy(t, c10MeshPolicyName, systemNS, nil, gvk.PeerAuthentication, func(o controllers.Object) {
					o.(*clientsecurityv1beta1.PeerAuthentication).Spec.Mtls = c.mesh.mtls()
				})
			}
			if c.ns.present {
				s.addPolicy(t, c10NsPolicyName, testNS, nil, gvk.PeerAuthentication, func(o controllers.Object) {
					o.(*clientsecurityv1beta1.PeerAuthentication).Spec.Mtls = c.ns.mtls()
				})
			}
			s.addPolicy(t, c10WorkloadPolicyName, testNS, c10Labels(), gvk.PeerAuthentication, func(o controllers.Object) {
				pol := o.(*clientsecurityv1beta1.PeerAuthentication)
				pol.Spec.Mtls = c.workload.mtls()
				pol.Spec.PortLevelMtls = map[uint32]*auth.PeerAuthentication_MutualTLS{}
				for p, m := range c.ports {
					pol.Spec.PortLevelMtls[p] = &auth.PeerAuthentication_MutualTLS{Mode: m}
				}
			})

			var lastAttached, lastDangling []string
			enforcement := func() string {
				addrs := s.lookup(s.addrXdsName("127.0.0.1"))
				if len(addrs) == 0 {
					return "no workload"
				}
				attached := addrs[0].Address.GetWorkload().AuthorizationPolicies
				lastAttached, lastDangling = attached, nil
				ambient := map[uint32]bool{}
				for _, p := range c10ProbePorts {
					ambient[p] = false
				}
				for _, name := range attached {
					wa := s.authorizationPolicies.GetKey(name)
					if wa == nil || wa.Authorization == nil {
						lastDangling = append(lastDangling, name)
						continue
					}
					for _, p := range c10ProbePorts {
						if c10PolicyDenies(t, wa.Authorization, p, false) {
							ambient[p] = true
						}
					}
				}
				res := c10Render(ambient)
				if len(lastDangling) > 0 {
					res += fmt.Sprintf(" dangling=%v", lastDangling)
				}
				return res
			}
			// The index is eventually consistent: wait until the workload-level policy was seen at all
			// (converted policy published, or the reference attached, or static strict attached/detached),
			// then require the final answer.
			defer func() {
				t.Logf("workload AuthorizationPolicies -> %v (dangling: %v)", lastAttached, lastDangling)
				if wa := s.authorizationPolicies.GetKey(c10ConvertedName()); wa != nil {
					t.Logf("published %s -> %v", c10ConvertedName(), wa.Authorization)
				} else {
					t.Logf("published %s -> <none>", c10ConvertedName())
				}
			}()
			assert.EventuallyEqual(t, enforcement, c10Render(c.wantStrict))
			// and it must stay that way once everything has been processed
			time.Sleep(50 * time.Millisecond)
			assert.Equal(t, enforcement(), c10Render(c.wantStrict))
		})
	}
}
