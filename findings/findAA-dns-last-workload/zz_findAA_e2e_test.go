// Copyright Istio Authors
//
// Licensed under the Apache License, Version 2.0 (the "License");
// you may not use this file except in compliance with the License.
// You may obtain a copy of the License at
//
//     http://www.apache.org/licenses/LICENSE-2.0
//
// Unless required by applicable law or agreed to in writing, software
// distributed under the License is distributed on an "AS IS" BASIS,
// WITHOUT WARRANTIES OR CONDITIONS OF ANY KIND, either express or implied.
// See the License for the specific language governing permissions and
// limitations under the License.

package xds_test

import (
	"fmt"
	"reflect"
	"sort"
	"testing"
	"time"

	networking "istio.io/api/networking/v1alpha3"
	"istio.io/istio/pilot/pkg/model"
	v3 "istio.io/istio/pilot/pkg/xds/v3"
	xdsfake "istio.io/istio/pilot/test/xds"
	"istio.io/istio/pilot/test/xdstest"
	"istio.io/istio/pkg/adsc"
	"istio.io/istio/pkg/config"
	"istio.io/istio/pkg/config/schema/gvk"
	"istio.io/istio/pkg/test/util/retry"
)

// findAA, end to end: a `resolution: DNS` ServiceEntry with a workloadSelector. Its cluster is a STRICT_DNS cluster
// with the addresses of the selected WorkloadEntries INLINE in the CDS resource (no EDS). When the last selected
// WorkloadEntry is deleted, the registry only requests an endpoints-only push: the connected proxy keeps the cluster
// with the deleted address; a control plane started from the final state does not generate that cluster at all.

const (
	findAAHost    = "dns.example.com"
	findAACluster = "outbound|80||" + findAAHost
)

var findAAWatch = []string{v3.ClusterType, v3.EndpointType}

func findAAServiceEntry() config.Config {
	return config.Config{
		Meta: config.Meta{GroupVersionKind: gvk.ServiceEntry, Name: "dns", Namespace: "default"},
		Spec: &networking.ServiceEntry{
			Hosts:            []string{findAAHost},
			Ports:            []*networking.ServicePort{{Number: 80, Protocol: "HTTP", Name: "http"}},
			Resolution:       networking.ServiceEntry_DNS,
			Location:         networking.ServiceEntry_MESH_EXTERNAL,
			WorkloadSelector: &networking.WorkloadSelector{Labels: map[string]string{"app": "dns-vm"}},
		},
	}
}

func findAAWorkloadEntry(name, address string) config.Config {
	return config.Config{
		Meta: config.Meta{GroupVersionKind: gvk.WorkloadEntry, Name: name, Namespace: "default"},
		Spec: &networking.WorkloadEntry{Address: address, Labels: map[string]string{"app": "dns-vm"}},
	}
}

// findAAHeld describes the cluster of the service as the proxy holds it: "<absent>" or "<type> [inline addresses]".
func findAAHeld(c *adsc.ADSC) string {
	if cl, f := c.GetClusters()[findAACluster]; f {
		addrs := xdstest.ExtractEndpoints(cl.GetLoadAssignment())
		sort.Strings(addrs)
		return fmt.Sprintf("%s %v", cl.GetType(), addrs)
	}
	if _, f := c.GetEdsClusters()[findAACluster]; f {
		return "EDS"
	}
	return "<absent>"
}

func findAARegistry(s *xdsfake.FakeDiscoveryServer) []string {
	got := []string{}
	shards, f := s.Env().EndpointIndex.ShardsForService(findAAHost, "default")
	if !f {
		return got
	}
	shards.RLock()
	defer shards.RUnlock()
	for _, eps := range shards.Shards {
		for _, ep := range eps {
			got = append(got, fmt.Sprintf("%s:%d", ep.FirstAddressOrNil(), ep.EndpointPort))
		}
	}
	sort.Strings(got)
	return got
}

// findAARun: start from `initial`, connect a proxy, apply `change`, wait until the registry reported the final member list,
// give pushes time to quiesce, then compare what the connected proxy holds with (a) a proxy that connects now and
// (b) a proxy of a second control plane that is started from the final state only.
func findAARun(t *testing.T, initial []config.Config, before string, change func(s *xdsfake.FakeDiscoveryServer), final []config.Config, wantRegistry []string) {
	t.Helper()
	s := xdsfake.NewFakeDiscoveryServer(t, xdsfake.FakeOptions{Configs: initial})
	connected := s.Connect(&model.Proxy{IPAddresses: []string{"10.10.10.10"}}, findAAWatch, []string{v3.ClusterType})
	retry.UntilSuccessOrFail(t, func() error {
		if got := findAAHeld(connected); got != before {
			return fmt.Errorf("connected proxy holds %q, want %q", got, before)
		}
		return nil
	}, retry.Timeout(10*time.Second))
	t.Logf("before: registry %v, connected proxy holds %q", findAARegistry(s), findAAHeld(connected))
	connected.WaitClear()

	change(s)

	retry.UntilSuccessOrFail(t, func() error {
		if got := findAARegistry(s); !reflect.DeepEqual(got, wantRegistry) {
			return fmt.Errorf("endpoint shard holds %v, want %v", got, wantRegistry)
		}
		return nil
	}, retry.Timeout(10*time.Second))

	// what a freshly started control plane generates from the final state
	freshServer := xdsfake.NewFakeDiscoveryServer(t, xdsfake.FakeOptions{Configs: final})
	reference := findAAHeld(freshServer.Connect(&model.Proxy{IPAddresses: []string{"10.10.10.10"}}, findAAWatch, []string{v3.ClusterType}))

	_, pushErr := connected.Wait(3*time.Second, v3.ClusterType)
	late := findAAHeld(s.Connect(&model.Proxy{IPAddresses: []string{"10.10.10.11"}}, findAAWatch, []string{v3.ClusterType}))
	t.Logf("after:  registry %v, CDS push to the connected proxy: %v, connected proxy holds %q, a proxy connecting now gets %q, a fresh control plane generates %q",
		findAARegistry(s), pushErr == nil, findAAHeld(connected), late, reference)

	if late != reference {
		t.Errorf("a proxy connecting now gets %q, a fresh control plane generates %q", late, reference)
	}
	if err := retry.UntilSuccess(func() error {
		if got := findAAHeld(connected); got != reference {
			return fmt.Errorf("not converged: connected proxy holds cluster %s as %q, a fresh control plane generates %q", findAACluster, got, reference)
		}
		return nil
	}, retry.Timeout(3*time.Second)); err != nil {
		t.Error(err)
	}
}

func findAADelete(kind config.GroupVersionKind, name string) func(s *xdsfake.FakeDiscoveryServer) {
	return func(s *xdsfake.FakeDiscoveryServer) {
		if err := s.Store().Delete(kind, name, "default", nil); err != nil {
			panic(err)
		}
	}
}

// the affected history: the LAST selected WorkloadEntry is deleted
func TestFindAA_E2E_DNSServiceEntry_LastWorkloadEntryDeleted(t *testing.T) {
	findAARun(t,
		[]config.Config{findAAServiceEntry(), findAAWorkloadEntry("vm-a", "10.0.0.1")},
		"STRICT_DNS [10.0.0.1:80]",
		findAADelete(gvk.WorkloadEntry, "vm-a"),
		[]config.Config{findAAServiceEntry()},
		[]string{})
}

// control: one of two selected WorkloadEntries is deleted (the new object still has a DNS member)
func TestFindAA_E2E_DNSServiceEntry_OneOfTwoWorkloadEntriesDeleted(t *testing.T) {
	findAARun(t,
		[]config.Config{findAAServiceEntry(), findAAWorkloadEntry("vm-a", "10.0.0.1"), findAAWorkloadEntry("vm-b", "10.0.0.2")},
		"STRICT_DNS [10.0.0.1:80 10.0.0.2:80]",
		findAADelete(gvk.WorkloadEntry, "vm-a"),
		[]config.Config{findAAServiceEntry(), findAAWorkloadEntry("vm-b", "10.0.0.2")},
		[]string{"10.0.0.2:80"})
}

// control / task 3: the FIRST WorkloadEntry is added to a DNS ServiceEntry without members (cluster absent -> present)
func TestFindAA_E2E_DNSServiceEntry_FirstWorkloadEntryAdded(t *testing.T) {
	findAARun(t,
		[]config.Config{findAAServiceEntry()},
		"<absent>",
		func(s *xdsfake.FakeDiscoveryServer) {
			if _, err := s.Store().Create(findAAWorkloadEntry("vm-a", "10.0.0.1")); err != nil {
				panic(err)
			}
		},
		[]config.Config{findAAServiceEntry(), findAAWorkloadEntry("vm-a", "10.0.0.1")},
		[]string{"10.0.0.1:80"})
}
