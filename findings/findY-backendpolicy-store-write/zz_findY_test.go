package model

import (
	"testing"
	"time"

	networking "istio.io/api/networking/v1alpha3"
	"istio.io/istio/pkg/config"
	"istio.io/istio/pkg/config/constants"
	"istio.io/istio/pkg/config/host"
	"istio.io/istio/pkg/config/visibility"
	"istio.io/istio/pkg/util/protomarshal"
	"istio.io/istio/pkg/util/sets"
	"google.golang.org/protobuf/proto"
)

// A user DestinationRule that is merged on top of an older rule synthesized from a backend policy must not be
// changed in the config store: building the snapshot again after the backend policy is gone must give the user
// rule alone, exactly what a freshly started istiod builds from the same store content.
func TestFindY_BackendPolicyMergeWritesIntoStoreObject(t *testing.T) {
	testhost := "backend.test.svc.cluster.local"
	backendLb := &networking.LoadBalancerSettings{
		LbPolicy: &networking.LoadBalancerSettings_Simple{Simple: networking.LoadBalancerSettings_LEAST_REQUEST},
	}
	userConnPool := &networking.ConnectionPoolSettings{Tcp: &networking.ConnectionPoolSettings_TCPSettings{MaxConnections: 7}}
	// the object as held by the config store: snapshots receive config.Config values whose Spec points at it
	userSpec := &networking.DestinationRule{
		Host: testhost,
		TrafficPolicy: &networking.TrafficPolicy{
			PortLevelSettings: []*networking.TrafficPolicy_PortTrafficPolicy{
				{Port: &networking.PortSelector{Number: 80}, ConnectionPool: userConnPool},
			},
		},
	}
	pristine := protomarshal.Clone(userSpec)
	userRule := config.Config{
		Meta: config.Meta{Name: "user-dr", Namespace: "test", CreationTimestamp: time.Unix(2, 0)},
		Spec: userSpec,
	}
	backendRule := config.Config{
		Meta: config.Meta{
			Name: "backend.test~istio-gateway", Namespace: "test", CreationTimestamp: time.Unix(1, 0),
			Annotations: map[string]string{constants.InternalParentNames: "XBackendTrafficPolicy/policy.test"},
		},
		Spec: &networking.DestinationRule{
			Host: testhost,
			TrafficPolicy: &networking.TrafficPolicy{
				PortLevelSettings: []*networking.TrafficPolicy_PortTrafficPolicy{
					{Port: &networking.PortSelector{Number: 80}, LoadBalancer: backendLb},
				},
			},
		},
	}
	build := func(cfgs ...config.Config) *networking.DestinationRule {
		ps := NewPushContext()
		ps.exportToDefaults.destinationRule = sets.New(visibility.Public)
		ps.setDestinationRules(cfgs) // initDestinationRules hands over shallow copies of the store's configs, as here
		merged := ps.destinationRuleIndex.namespaceLocal["test"].specificDestRules[host.Name(testhost)]
		if len(merged) != 1 {
			t.Fatalf("expected one merged rule, got %d", len(merged))
		}
		return merged[0].rule.Spec.(*networking.DestinationRule)
	}
	// snapshot 1: both rules exist
	first := build(userRule, backendRule)
	if got := first.TrafficPolicy.PortLevelSettings[0].LoadBalancer; got == nil {
		t.Fatalf("precondition: the merged rule takes the backend load balancer for port 80")
	}
	if !proto.Equal(userSpec, pristine) {
		t.Errorf("building a snapshot changed the user's DestinationRule in the store:\n have %v\n want %v", userSpec, pristine)
	}
	// the backend policy is deleted; snapshot 2 is built from the user rule alone
	second := build(userRule)
	fresh := build(config.Config{Meta: userRule.Meta, Spec: protomarshal.Clone(pristine)})
	if !proto.Equal(second, fresh) {
		t.Errorf("after the backend policy is deleted the snapshot depends on history:\n long-lived istiod: %v\n fresh istiod:      %v", second, fresh)
	}
}
