// Copyright Istio Authors
//
// Licensed under the Apache License, Version 2.0 (the "License");
// you may not use this file except in compliance with the License.
// You may obtain a copy of the License at
//
//     http://www.apache.org/licenses/LICENSE-2.0
//
// Unless required by applicable law or agreed to in writing, software
// distributed under the License is distributed on an "AS IS" BASIS,
// WITHOUT WARRANTIES OR CONDITIONS OF ANY KIND, either express or implied.
// See the License for the specific language governing permissions and
// limitations under the License.

//go:build linux

package cache

// Property under test: every answer the secret cache gives for a file mounted key/certificate
// (the "default" resource, or a "file-cert:<cert>~<key>" resource) carries a private key and a
// certificate chain that belong together, for every schedule of file writes and requests.
//
// generateKeyCertFromExistingFiles validates the pair on disk (tls.LoadX509KeyPair reads both files)
// and then builds the answer from a SECOND read of both files. A rotation that is not atomic over the
// two files (key written, certificate not yet - the case the comment in that function is about) and
// that lands between the validation and the second read makes the agent answer with a pair that was
// never validated: new key + old certificate.

import (
	"crypto/tls"
	"fmt"
	"math/rand"
	"os"
	"path/filepath"
	"sync"
	"sync/atomic"
	"syscall"
	"testing"
	"time"

	"istio.io/istio/pkg/file"
	"istio.io/istio/pkg/security"
	"istio.io/istio/pkg/testcerts"
)

type findQPair struct {
	name      string
	cert, key []byte
}

// findQPairs returns two valid pairs A and B whose halves do not match crosswise.
func findQPairs(t *testing.T) (a, b findQPair) {
	t.Helper()
	certA, err := os.ReadFile("./testdata/cert-chain.pem")
	if err != nil {
		t.Fatal(err)
	}
	keyA, err := os.ReadFile("./testdata/key.pem")
	if err != nil {
		t.Fatal(err)
	}
	a = findQPair{"A", certA, keyA}
	b = findQPair{"B", testcerts.RotatedCert, testcerts.RotatedKey}
	for _, p := range []findQPair{a, b} {
		if _, err := tls.X509KeyPair(p.cert, p.key); err != nil {
			t.Fatalf("precondition: pair %s is not a valid pair: %v", p.name, err)
		}
	}
	if _, err := tls.X509KeyPair(a.cert, b.key); err == nil {
		t.Fatal("precondition: cert A and key B must not match")
	}
	if _, err := tls.X509KeyPair(b.cert, a.key); err == nil {
		t.Fatal("precondition: cert B and key A must not match")
	}
	return a, b
}

// findQFifoFS gives the test control over what every single read of the certificate file and of the
// key file observes, without touching non-test code: both paths are FIFOs, and a feeder answers the
// i-th open-for-read with the content the file has at that moment of the schedule. The code under
// test reads strictly sequentially (cert, key, cert, key, ...; os.ReadFile closes the file before the
// next one is opened), so the i-th read is read i of that sequence. This is exactly what a regular
// file system shows to a reader whose reads interleave with the writes of the schedule.
type findQFifoFS struct {
	certPath, keyPath string
	done              chan struct{}
	wg                sync.WaitGroup
	served            atomic.Int32
}

// content(i) is what read number i (0-based; even = certificate file, odd = key file) observes.
func newFindQFifoFS(t *testing.T, content func(i int) []byte) *findQFifoFS {
	t.Helper()
	dir := t.TempDir()
	f := &findQFifoFS{
		certPath: filepath.Join(dir, "cert-chain.pem"),
		keyPath:  filepath.Join(dir, "key.pem"),
		done:     make(chan struct{}),
	}
	for _, p := range []string{f.certPath, f.keyPath} {
		if err := syscall.Mkfifo(p, 0o644); err != nil {
			t.Skipf("cannot create a FIFO: %v", err)
		}
	}
	f.wg.Add(1)
	go func() {
		defer f.wg.Done()
		for i := 0; ; i++ {
			path := f.certPath
			if i%2 == 1 {
				path = f.keyPath
			}
			// Non-blocking open for write fails with ENXIO until the reader has opened the FIFO,
			// i.e. until the code under test has started read number i.
			var fd int
			for {
				var err error
				fd, err = syscall.Open(path, syscall.O_WRONLY|syscall.O_NONBLOCK|syscall.O_CLOEXEC, 0)
				if err == nil {
					break
				}
				select {
				case <-f.done:
					return
				case <-time.After(50 * time.Microsecond):
				}
			}
			data := content(i)
			if n, err := syscall.Write(fd, data); err != nil || n != len(data) {
				panic(fmt.Sprintf("fifo write: n=%d err=%v", n, err))
			}
			f.served.Add(1)
			_ = syscall.Close(fd) // EOF for the reader
		}
	}()
	return f
}

func (f *findQFifoFS) stop() {
	close(f.done)
	f.wg.Wait()
	// Release a reader that might still be blocked in open(2) (only after a test failure).
	for _, p := range []string{f.certPath, f.keyPath} {
		if fd, err := syscall.Open(p, syscall.O_RDWR|syscall.O_NONBLOCK|syscall.O_CLOEXEC, 0); err == nil {
			time.Sleep(10 * time.Millisecond)
			_ = syscall.Close(fd)
		}
	}
}

func findQDescribe(a, b findQPair, cert, key []byte) string {
	which := func(x, xa, xb []byte) string {
		switch string(x) {
		case string(xa):
			return "A"
		case string(xb):
			return "B"
		}
		return fmt.Sprintf("<%d unexpected bytes>", len(x))
	}
	return fmt.Sprintf("certificate chain of pair %s + private key of pair %s", which(cert, a.cert, b.cert), which(key, a.key, b.key))
}

// Deterministic schedule, through the public GenerateSecret with a file mounted certificate:
//
//	disk: cert=A key=A
//	agent : read cert (A), read key (A)       -> pair validated (A/A)
//	agent : read cert (A)
//	writer: key.pem        := key B            (rotation started: key first, certificate not yet)
//	agent : read key (B)                       -> answers cert A + key B
//	writer: cert-chain.pem := cert B           (rotation complete)
//
// With the fix the bytes that were validated are the bytes that are answered, so the same schedule
// of writes gives A/A (and any later request B/B).
func TestFindQ_FIFO_ServedPairIsTheValidatedPair(t *testing.T) {
	a, b := findQPairs(t)
	fs := newFindQFifoFS(t, func(i int) []byte {
		switch i {
		case 0, 2:
			return a.cert
		case 1:
			return a.key
		case 3:
			return b.key
		}
		// Rotation complete.
		if i%2 == 0 {
			return b.cert
		}
		return b.key
	})
	defer fs.stop()

	sc := createCache(t, nil, func(string) {}, security.Options{FileDebounceDuration: time.Millisecond})
	resource := fmt.Sprintf("file-cert:%s~%s", fs.certPath, fs.keyPath)

	type result struct {
		item *security.SecretItem
		err  error
	}
	resCh := make(chan result, 1)
	go func() {
		item, err := sc.GenerateSecret(resource)
		resCh <- result{item, err}
	}()
	var res result
	select {
	case res = <-resCh:
	case <-time.After(30 * time.Second):
		t.Fatalf("GenerateSecret did not return (reads served: %d)", fs.served.Load())
	}
	if res.err != nil {
		t.Fatalf("GenerateSecret: %v", res.err)
	}
	t.Logf("reads served: %d; answer: %s", fs.served.Load(), findQDescribe(a, b, res.item.CertificateChain, res.item.PrivateKey))
	if _, err := tls.X509KeyPair(res.item.CertificateChain, res.item.PrivateKey); err != nil {
		t.Fatalf("SDS answer for %q carries a private key and a certificate chain that do not belong together (%s): %v",
			"file-cert:...", findQDescribe(a, b, res.item.CertificateChain, res.item.PrivateKey), err)
	}
}

// Companion of the test above (passes before and after the fix): when the request arrives in the
// middle of the rotation, the retry loop must wait for the rotation to complete and answer B/B.
//
//	disk: cert=A key=B (rotation in progress)
//	agent : read cert (A), read key (B)       -> mismatch, retry after back off
//	writer: cert-chain.pem := cert B
//	agent : reads B/B from here on
func TestFindQ_FIFO_RequestInTheMiddleOfRotationRetries(t *testing.T) {
	a, b := findQPairs(t)
	fs := newFindQFifoFS(t, func(i int) []byte {
		switch {
		case i == 0:
			return a.cert
		case i%2 == 0:
			return b.cert
		}
		return b.key
	})
	defer fs.stop()

	sc := createCache(t, nil, func(string) {}, security.Options{FileDebounceDuration: time.Millisecond})
	item, err := sc.generateKeyCertFromExistingFiles(fs.certPath, fs.keyPath, "default")
	if err != nil {
		t.Fatalf("generateKeyCertFromExistingFiles: %v", err)
	}
	if _, err := tls.X509KeyPair(item.CertificateChain, item.PrivateKey); err != nil {
		t.Fatalf("mismatched answer (%s): %v", findQDescribe(a, b, item.CertificateChain, item.PrivateKey), err)
	}
	if string(item.CertificateChain) != string(b.cert) || string(item.PrivateKey) != string(b.key) {
		t.Fatalf("expected pair B after the rotation completed, got %s", findQDescribe(a, b, item.CertificateChain, item.PrivateKey))
	}
	if item.ResourceName != "default" || item.ExpireTime.IsZero() || item.CreatedTime.IsZero() {
		t.Fatalf("incomplete item: %+v", item)
	}
}

// Stress version on regular files, nothing simulated. One goroutine keeps rotating the mounted
// key/certificate between the valid pairs A and B the way a non-atomic rotator does: each FILE is
// replaced atomically (temp file + rename, so no reader ever sees a truncated file), but the PAIR is
// not: key first, a short pause, then the certificate. The other goroutine asks the agent for the
// "default" workload certificate through the public GenerateSecret and checks every answer.
func TestFindQ_Stress_NonAtomicRotation(t *testing.T) {
	a, b := findQPairs(t)
	dir := t.TempDir()
	certPath := filepath.Join(dir, "cert-chain.pem")
	keyPath := filepath.Join(dir, "key.pem")
	write := func(path string, data []byte) {
		if err := file.AtomicWrite(path, data, 0o644); err != nil {
			panic(err)
		}
	}
	write(certPath, a.cert)
	write(keyPath, a.key)

	sc := createCache(t, nil, func(string) {}, security.Options{FileDebounceDuration: time.Millisecond})
	sc.existingCertificateFile = security.SdsCertificateConfig{
		CertificatePath:   certPath,
		PrivateKeyPath:    keyPath,
		CaCertificatePath: filepath.Join(dir, "root-cert.pem"),
	}

	stop := make(chan struct{})
	var wg sync.WaitGroup
	var rotations atomic.Int64
	wg.Add(1)
	go func() {
		defer wg.Done()
		r := rand.New(rand.NewSource(1))
		next := []findQPair{b, a}
		for i := 0; ; i++ {
			select {
			case <-stop:
				return
			default:
			}
			p := next[i%2]
			write(keyPath, p.key)
			time.Sleep(time.Duration(r.Intn(300)) * time.Microsecond) // key is new, certificate still old
			write(certPath, p.cert)
			rotations.Add(1)
			time.Sleep(time.Duration(500+r.Intn(1000)) * time.Microsecond) // consistent on disk
		}
	}()

	const maxAnswers = 20000
	deadline := time.Now().Add(5 * time.Second)
	answers, mismatches, errors := 0, 0, 0
	first := ""
	for answers < maxAnswers && time.Now().Before(deadline) {
		item, err := sc.GenerateSecret(security.WorkloadKeyCertResourceName)
		if err != nil {
			// An error is not a violation of the property (nothing is served).
			errors++
			continue
		}
		answers++
		if _, err := tls.X509KeyPair(item.CertificateChain, item.PrivateKey); err != nil {
			mismatches++
			if first == "" {
				first = fmt.Sprintf("answer #%d: %s: %v", answers, findQDescribe(a, b, item.CertificateChain, item.PrivateKey), err)
			}
		}
	}
	close(stop)
	wg.Wait()
	// Size of the window: the time the check spends parsing after it has read the files.
	t0 := time.Now()
	_, _ = tls.X509KeyPair(a.cert, a.key)
	t.Logf("findQ stress: %d mismatched answers out of %d answers (%d errors, %d rotations; one tls.X509KeyPair takes %v)",
		mismatches, answers, errors, rotations.Load(), time.Since(t0))
	if mismatches > 0 {
		t.Fatalf("%d of %d SDS answers for %q carry a private key and a certificate chain that do not belong together; first: %s",
			mismatches, answers, security.WorkloadKeyCertResourceName, first)
	}
}
