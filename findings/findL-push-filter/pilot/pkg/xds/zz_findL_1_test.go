// Copyright Istio Authors
//
// Licensed under the Apache License, Version 2.0 (the "License");
// you may not use this file except in compliance with the License.
// You may obtain a copy of the License at
//
//     http://www.apache.org/licenses/LICENSE-2.0
//
// Unless required by applicable law or agreed to in writing, software
// distributed under the License is distributed on an "AS IS" BASIS,
// WITHOUT WARRANTIES OR CONDITIONS OF ANY KIND, either express or implied.
// See the License for the specific language governing permissions and
// limitations under the License.

package xds_test

// Finding L1: the "headless endpoint marker" swallows other service updates that were debounced into the same push.
//
// cdsNeedsPush / rdsNeedsPush (and ldsNeedsPush for routers) skip the type when
//     req.Reason.Has(HeadlessEndpointUpdate) && !req.Reason.Has(ServiceUpdate) && all keys are kind.ServiceEntry
// The endpoint path of a NON-headless service also produces a kind.ServiceEntry key without the ServiceUpdate reason
// (DiscoveryServer.EDSUpdate when EndpointIndex.UpdateServiceEndpoints returns FullPush: first endpoints of a service,
// or the service accounts of the service changed; reason is EndpointUpdate). When the debouncer merges such a request
// with a headless endpoint update of some OTHER service, the merged request still looks "headless only" and CDS is
// skipped although the clusters of the non-headless service changed (its SANs are derived from the service accounts).
//
// With the default PILOT_ENABLE_EDS_DEBOUNCE=true a headless endpoint event that really changes the pushed endpoints also
// contributes an {Endpoints headless} key (from pushEDS), which defeats the "all keys are ServiceEntry" test. The marker
// is alone whenever pushEDS decides NoPush, i.e. the slice event does not change the endpoints istiod derives from it:
//   - the EndpointSlice object was written without an endpoint change (metadata only), or
//   - the slice lists the address of a pod istiod has not seen yet (slice informer ahead of the pod informer, typical
//     during a StatefulSet roll-out): updateEndpointCacheForSlice skips that address, EDSUpdate sees unchanged
//     endpoints, but onEventInternal still sends the HeadlessEndpointUpdate marker. When the pod arrives a second event
//     carries {Endpoints, ServiceEntry headless}; that CDS push regenerates everything for a state-of-the-world
//     client (which heals it), but a delta CDS client (ISTIO_DELTA_XDS, the default) only gets the headless service
//     rebuilt and keeps the stale cluster of the other service for good.
// With PILOT_ENABLE_EDS_DEBOUNCE=false the marker is always alone because Endpoints-only requests bypass the debouncer.

import (
	"context"
	"fmt"
	"testing"
	"time"

	clusterv3 "github.com/envoyproxy/go-control-plane/envoy/config/cluster/v3"
	tlsv3 "github.com/envoyproxy/go-control-plane/envoy/extensions/transport_sockets/tls/v3"
	"google.golang.org/protobuf/types/known/anypb"
	v1 "k8s.io/api/core/v1"
	discoveryv1 "k8s.io/api/discovery/v1"
	metav1 "k8s.io/apimachinery/pkg/apis/meta/v1"
	"k8s.io/apimachinery/pkg/runtime"

	"istio.io/istio/pilot/pkg/features"
	"istio.io/istio/pilot/pkg/model"
	v3 "istio.io/istio/pilot/pkg/xds/v3"
	"istio.io/istio/pilot/test/xds"
	"istio.io/istio/pkg/ptr"
	"istio.io/istio/pkg/test"
)

const (
	findL1Headless = "headless.default.svc.cluster.local"
	findL1Regular  = "regular.default.svc.cluster.local"
)

func findL1Pod(name, ip, sa, app string) *v1.Pod {
	return &v1.Pod{
		ObjectMeta: metav1.ObjectMeta{Name: name, Namespace: "default", Labels: map[string]string{"app": app}},
		Spec:       v1.PodSpec{ServiceAccountName: sa},
		Status: v1.PodStatus{
			PodIP:      ip,
			PodIPs:     []v1.PodIP{{IP: ip}},
			Phase:      v1.PodRunning,
			Conditions: []v1.PodCondition{{Type: v1.PodReady, Status: v1.ConditionTrue}},
		},
	}
}

func findL1Service(name, clusterIP string, proto string) *v1.Service {
	return &v1.Service{
		ObjectMeta: metav1.ObjectMeta{Name: name, Namespace: "default"},
		Spec: v1.ServiceSpec{
			ClusterIP: clusterIP,
			Selector:  map[string]string{"app": name},
			Ports:     []v1.ServicePort{{Name: proto, Port: 80}},
		},
	}
}

func findL1Slice(svc string, pods ...*v1.Pod) *discoveryv1.EndpointSlice {
	es := &discoveryv1.EndpointSlice{
		ObjectMeta: metav1.ObjectMeta{
			Name:      svc,
			Namespace: "default",
			Labels:    map[string]string{discoveryv1.LabelServiceName: svc},
		},
		AddressType: discoveryv1.AddressTypeIPv4,
		Ports:       []discoveryv1.EndpointPort{{Name: ptr.Of("tcp"), Port: ptr.Of(int32(80))}},
	}
	for _, p := range pods {
		es.Endpoints = append(es.Endpoints, discoveryv1.Endpoint{
			Addresses:  []string{p.Status.PodIP},
			Conditions: discoveryv1.EndpointConditions{Ready: ptr.Of(true)},
			TargetRef:  &v1.ObjectReference{Kind: "Pod", Namespace: p.Namespace, Name: p.Name},
		})
	}
	return es
}

func findL1Proxy() *model.Proxy {
	return &model.Proxy{
		ID:              "client.default",
		IPAddresses:     []string{"10.99.0.1"},
		ConfigNamespace: "default",
		Metadata:        &model.NodeMetadata{Namespace: "default"},
	}
}

func findL1Sans(c *clusterv3.Cluster) string {
	return fmt.Sprint(findL1SansList(c))
}

func findL1TLSContext(a *anypb.Any) *tlsv3.UpstreamTlsContext {
	if a == nil {
		return nil
	}
	res := &tlsv3.UpstreamTlsContext{}
	if err := a.UnmarshalTo(res); err != nil {
		return nil
	}
	return res
}

// findL1SansList extracts the SANs of the (auto-mTLS) transport socket match of a cluster.
func findL1SansList(c *clusterv3.Cluster) []string {
	res := []string{}
	for _, m := range c.GetTransportSocketMatches() {
		tlsCtx := findL1TLSContext(m.GetTransportSocket().GetTypedConfig())
		if tlsCtx == nil {
			continue
		}
		for _, s := range tlsCtx.GetCommonTlsContext().GetCombinedValidationContext().GetDefaultValidationContext().GetMatchSubjectAltNames() { //nolint: staticcheck
			res = append(res, s.GetExact())
		}
	}
	return res
}

type findL1Opts struct {
	// merged: the two slice updates arrive within one debounce window; otherwise (control) they are pushed separately.
	merged bool
	// headlessEvent is what happens to the EndpointSlice of the headless service:
	//   "touch":   the slice is rewritten with unchanged endpoints (only an annotation differs)
	//   "latePod": the slice gains an endpoint whose pod istiod learns about only later
	//   "ready":   the slice gains an endpoint of an already known pod
	headlessEvent string
	// delta: the long-lived proxy speaks delta xDS (the default of current proxies)
	delta bool
}

func TestFindL1HeadlessMarkerSwallowsServiceAccountChange(t *testing.T) {
	h1 := findL1Pod("headless-1", "10.1.0.1", "headless", "headless")
	h2 := findL1Pod("headless-2", "10.1.0.2", "headless", "headless")
	r1 := findL1Pod("regular-1", "10.2.0.1", "sa-one", "regular")
	r2 := findL1Pod("regular-2", "10.2.0.2", "sa-two", "regular")
	headlessSvc := findL1Service("headless", v1.ClusterIPNone, "tcp")
	regularSvc := findL1Service("regular", "10.3.0.1", "tcp")
	regularCluster := "outbound|80||" + findL1Regular
	const proxyIP = "10.99.0.1"
	const nodeID = "sidecar~" + proxyIP + "~client.default~default.svc.cluster.local"
	meta := model.NodeMetadata{Namespace: "default", IstioVersion: "1.23.0"}

	run := func(t *testing.T, o findL1Opts) {
		touched := findL1Slice("headless", h1)
		touched.Annotations = map[string]string{"endpoints.kubernetes.io/last-change-trigger-time": "2026-01-01T00:00:00Z"}
		headlessFinal := touched
		if o.headlessEvent != "touch" {
			headlessFinal = findL1Slice("headless", h1, h2)
		}
		initial := []runtime.Object{headlessSvc, regularSvc, h1, r1, findL1Slice("headless", h1), findL1Slice("regular", r1)}
		final := []runtime.Object{headlessSvc, regularSvc, h1, h2, r1, r2, headlessFinal, findL1Slice("regular", r1, r2)}

		// connect returns a function that yields the clusters the client currently holds
		connect := func(s *xds.FakeDiscoveryServer) func() map[string]*clusterv3.Cluster {
			if o.delta {
				d := findLConnectDelta(t, s, nodeID, meta, v3.ClusterType)
				return func() map[string]*clusterv3.Cluster {
					d.drain(300 * time.Millisecond)
					return findLDecodeClusters(t, findLDeltaAnys(d))
				}
			}
			ads := s.Connect(findL1Proxy(), nil, []string{v3.ClusterType})
			return func() map[string]*clusterv3.Cluster { return findLAllClusters(ads) }
		}

		// A debounce window like production (100ms default); large enough for two back-to-back informer events to be merged.
		s := xds.NewFakeDiscoveryServer(t, xds.FakeOptions{KubernetesObjects: initial, DebounceTime: 300 * time.Millisecond})
		held := connect(s)
		if c := held()[regularCluster]; c == nil {
			t.Fatalf("no cluster %v", regularCluster)
		} else {
			t.Logf("before: SANs of %s = %v", regularCluster, findL1Sans(c))
		}

		kc := s.KubeClient().Kube()
		ctx := context.Background()
		createPod := func(p *v1.Pod) {
			if _, err := kc.CoreV1().Pods("default").Create(ctx, p, metav1.CreateOptions{}); err != nil {
				t.Fatal(err)
			}
		}
		createPod(r2)
		if o.headlessEvent != "latePod" {
			createPod(h2)
		}
		findLWaitQuiesced(t, s, proxyIP, 100*time.Millisecond, func() bool { return true })

		updateRegular := func() {
			// regular (ClusterIP) service gets a second endpoint that runs under another service account:
			// EDSUpdate -> UpdateServiceEndpoints -> FullPush, {ServiceEntry regular}, reason EndpointUpdate
			if _, err := kc.DiscoveryV1().EndpointSlices("default").Update(ctx, findL1Slice("regular", r1, r2), metav1.UpdateOptions{}); err != nil {
				t.Fatal(err)
			}
		}
		updateHeadless := func() {
			// event for the slice of the headless TCP service: {ServiceEntry headless}, reason HeadlessEndpointUpdate
			if _, err := kc.DiscoveryV1().EndpointSlices("default").Update(ctx, headlessFinal, metav1.UpdateOptions{}); err != nil {
				t.Fatal(err)
			}
		}
		sasVisible := func() bool {
			return len(s.Env().PushContext().ServiceAccounts(findL1Regular, "default")) == 2
		}
		headlessEndpoints := func() int {
			sh, f := s.Env().EndpointIndex.ShardsForService(findL1Headless, "default")
			if !f {
				return 0
			}
			n := 0
			for _, eps := range sh.Shards {
				n += len(eps)
			}
			return n
		}
		updateRegular()
		if !o.merged {
			findLWaitQuiesced(t, s, proxyIP, 100*time.Millisecond, sasVisible)
		}
		updateHeadless()
		findLWaitQuiesced(t, s, proxyIP, 500*time.Millisecond, sasVisible)
		if o.headlessEvent == "latePod" {
			createPod(h2)
		}
		findLWaitQuiesced(t, s, proxyIP, 500*time.Millisecond, func() bool {
			return o.headlessEvent == "touch" || headlessEndpoints() == 2
		})

		fresh := xds.NewFakeDiscoveryServer(t, xds.FakeOptions{KubernetesObjects: final})
		want := connect(fresh)()
		got := held()
		t.Logf("after : SANs of %s held by the long-lived proxy = %v", regularCluster, findL1Sans(got[regularCluster]))
		t.Logf("after : SANs of %s from a fresh control plane   = %v", regularCluster, findL1Sans(want[regularCluster]))
		findLCompare(t, "CDS", got, want)
	}

	t.Run("control sotw: separate pushes, slice touched", func(t *testing.T) {
		run(t, findL1Opts{merged: false, headlessEvent: "touch"})
	})
	t.Run("control delta: separate pushes, slice ahead of its pod", func(t *testing.T) {
		run(t, findL1Opts{merged: false, headlessEvent: "latePod", delta: true})
	})
	t.Run("sotw: merged, slice touched", func(t *testing.T) {
		run(t, findL1Opts{merged: true, headlessEvent: "touch"})
	})
	t.Run("delta: merged, slice ahead of its pod", func(t *testing.T) {
		run(t, findL1Opts{merged: true, headlessEvent: "latePod", delta: true})
	})
	t.Run("sotw: merged, new ready endpoint, PILOT_ENABLE_EDS_DEBOUNCE=false", func(t *testing.T) {
		test.SetForTest(t, &features.EnableEDSDebounce, false)
		run(t, findL1Opts{merged: true, headlessEvent: "ready"})
	})
}
