// Copyright Istio Authors
//
// Licensed under the Apache License, Version 2.0 (the "License");
// you may not use this file except in compliance with the License.
// You may obtain a copy of the License at
//
//     http://www.apache.org/licenses/LICENSE-2.0
//
// Unless required by applicable law or agreed to in writing, software
// distributed under the License is distributed on an "AS IS" BASIS,
// WITHOUT WARRANTIES OR CONDITIONS OF ANY KIND, either express or implied.
// See the License for the specific language governing permissions and
// limitations under the License.

package xds_test

// Helpers shared by the zz_findL_*_test.go files.
//
// Every test drives a real DiscoveryServer (pilot/test/xds.NewFakeDiscoveryServer) over a real ADS stream with a
// long-lived proxy, applies a history of changes, waits until pushes quiesce and then compares what the long-lived
// proxy holds with what a FRESH DiscoveryServer built from the final state only generates for the same proxy.

import (
	"context"
	"net"
	"sort"
	"strings"
	"testing"
	"time"

	clusterv3 "github.com/envoyproxy/go-control-plane/envoy/config/cluster/v3"
	corev3 "github.com/envoyproxy/go-control-plane/envoy/config/core/v3"
	discovery "github.com/envoyproxy/go-control-plane/envoy/service/discovery/v3"
	"github.com/google/go-cmp/cmp"
	"google.golang.org/grpc"
	"google.golang.org/grpc/credentials/insecure"
	"google.golang.org/protobuf/proto"
	"google.golang.org/protobuf/testing/protocmp"
	"google.golang.org/protobuf/types/known/anypb"

	"istio.io/istio/pilot/pkg/features"
	"istio.io/istio/pilot/pkg/model"
	v3 "istio.io/istio/pilot/pkg/xds/v3"
	"istio.io/istio/pilot/test/xds"
	"istio.io/istio/pkg/adsc"
	"istio.io/istio/pkg/test"
	"istio.io/istio/pkg/test/util/retry"
)

// findLWaitQuiesced blocks until `visible` holds, every received update was committed into a push context and the
// connection of the proxy with address proxyIP was handed that push context (pushConnection ran for it, whether or not
// anything was sent), then waits `settle` for the responses to reach the client.
// Endpoints-only pushes do not record the push context on the proxy; for those the helper falls back to waiting until
// the global push context has been stable for 2s.
func findLWaitQuiesced(t *testing.T, s *xds.FakeDiscoveryServer, proxyIP string, settle time.Duration, visible func() bool) {
	t.Helper()
	retry.UntilOrFail(t, visible, retry.Timeout(10*time.Second), retry.Delay(10*time.Millisecond))
	handed := func(want *model.PushContext) bool {
		for _, c := range s.Discovery.Clients() {
			if len(c.Proxy().IPAddresses) == 0 || c.Proxy().IPAddresses[0] != proxyIP {
				continue
			}
			c.Proxy().RLock()
			got := c.Proxy().LastPushContext
			c.Proxy().RUnlock()
			if got == want {
				return true
			}
		}
		return false
	}
	deadline := time.Now().Add(20 * time.Second)
	for time.Now().Before(deadline) {
		s.EnsureSynced(t)
		want := s.Env().PushContext()
		stableSince := time.Now()
		for !handed(want) && time.Since(stableSince) < 2*time.Second && s.Env().PushContext() == want {
			time.Sleep(10 * time.Millisecond)
		}
		time.Sleep(settle)
		// make sure nothing new arrived in the meantime
		s.EnsureSynced(t)
		if s.Env().PushContext() == want {
			return
		}
	}
	t.Fatalf("pushes for %v never quiesced", proxyIP)
}

// findLCompare reports every difference between the resources the long-lived proxy holds and the ones a fresh
// generation contains. It returns the number of differences.
func findLCompare[T proto.Message](t *testing.T, typ string, held, fresh map[string]T) int {
	t.Helper()
	diffs := 0
	names := func(m map[string]T) []string {
		res := make([]string, 0, len(m))
		for n := range m {
			res = append(res, n)
		}
		sort.Strings(res)
		return res
	}
	t.Logf("%s held by the long-lived proxy: %v", typ, names(held))
	t.Logf("%s of a fresh control plane    : %v", typ, names(fresh))
	for _, name := range names(fresh) {
		got, f := held[name]
		if !f {
			diffs++
			t.Errorf("%s: long-lived proxy is MISSING %q which a fresh control plane generates", typ, name)
			continue
		}
		if d := cmp.Diff(fresh[name], got, protocmp.Transform()); d != "" {
			diffs++
			t.Errorf("%s: %q held by the long-lived proxy DIFFERS from a fresh control plane (-fresh +held):\n%s", typ, name, d)
		}
	}
	for _, name := range names(held) {
		if _, f := fresh[name]; !f {
			diffs++
			t.Errorf("%s: long-lived proxy still holds STALE %q which a fresh control plane does not generate", typ, name)
		}
	}
	return diffs
}

// findLDelta is a minimal incremental (delta) xDS client for one type: it applies Resources / RemovedResources of every
// response to the set it holds, exactly like Envoy does, and ACKs.
type findLDelta struct {
	t      *testing.T
	stream discovery.AggregatedDiscoveryService_DeltaAggregatedResourcesClient
	node   *corev3.Node
	resp   chan *discovery.DeltaDiscoveryResponse
	held   map[string]*discovery.Resource
	log    []string
}

func findLConnectDelta(t *testing.T, s *xds.FakeDiscoveryServer, nodeID string, meta model.NodeMetadata, typ string) *findLDelta {
	t.Helper()
	test.SetForTest(t, &features.DeltaXds, true)
	conn, err := grpc.Dial("buffcon",
		grpc.WithTransportCredentials(insecure.NewCredentials()),
		grpc.WithBlock(),
		grpc.WithContextDialer(func(context.Context, string) (net.Conn, error) {
			return s.BufListener.Dial()
		}))
	if err != nil {
		t.Fatal(err)
	}
	ctx, cancel := context.WithCancel(context.Background())
	t.Cleanup(func() {
		cancel()
		_ = conn.Close()
	})
	stream, err := discovery.NewAggregatedDiscoveryServiceClient(conn).DeltaAggregatedResources(ctx)
	if err != nil {
		t.Fatal(err)
	}
	d := &findLDelta{
		t:      t,
		stream: stream,
		node:   &corev3.Node{Id: nodeID, Metadata: meta.ToStruct()},
		resp:   make(chan *discovery.DeltaDiscoveryResponse, 100),
		held:   map[string]*discovery.Resource{},
	}
	go func() {
		for {
			r, err := stream.Recv()
			if err != nil {
				close(d.resp)
				return
			}
			d.resp <- r
		}
	}()
	// wildcard subscription, like Envoy does for CDS
	if err := stream.Send(&discovery.DeltaDiscoveryRequest{Node: d.node, TypeUrl: typ}); err != nil {
		t.Fatal(err)
	}
	if !d.recv(5 * time.Second) {
		t.Fatalf("no initial %s response", typ)
	}
	return d
}

// recv waits for one response, applies it to the held set and ACKs it. Returns false on timeout.
func (d *findLDelta) recv(timeout time.Duration) bool {
	d.t.Helper()
	select {
	case resp, ok := <-d.resp:
		if !ok {
			d.t.Fatalf("stream closed")
		}
		upd := []string{}
		for _, r := range resp.Resources {
			d.held[r.Name] = r
			upd = append(upd, r.Name)
		}
		for _, r := range resp.RemovedResources {
			delete(d.held, r)
		}
		sort.Strings(upd)
		d.log = append(d.log, v3.GetShortType(resp.TypeUrl)+" resources=["+strings.Join(upd, " ")+"] removed=["+strings.Join(resp.RemovedResources, " ")+"]")
		if err := d.stream.Send(&discovery.DeltaDiscoveryRequest{Node: d.node, TypeUrl: resp.TypeUrl, ResponseNonce: resp.Nonce}); err != nil {
			d.t.Fatal(err)
		}
		return true
	case <-time.After(timeout):
		return false
	}
}

// drain consumes every response that arrives until the stream has been quiet for `quiet`.
func (d *findLDelta) drain(quiet time.Duration) {
	for d.recv(quiet) {
	}
}

func (d *findLDelta) names() []string {
	res := make([]string, 0, len(d.held))
	for n := range d.held {
		res = append(res, n)
	}
	sort.Strings(res)
	return res
}

// findLSotw is a minimal state-of-the-world xDS client for one type; it remembers the last response.
type findLSotw struct {
	t      *testing.T
	stream discovery.AggregatedDiscoveryService_StreamAggregatedResourcesClient
	node   *corev3.Node
	resp   chan *discovery.DiscoveryResponse
	held   map[string]*anypb.Any
	nameOf func(*anypb.Any) string
}

func findLConnectSotw(t *testing.T, s *xds.FakeDiscoveryServer, nodeID string, meta model.NodeMetadata, typ string, nameOf func(*anypb.Any) string) *findLSotw {
	t.Helper()
	conn, err := grpc.Dial("buffcon",
		grpc.WithTransportCredentials(insecure.NewCredentials()),
		grpc.WithBlock(),
		grpc.WithContextDialer(func(context.Context, string) (net.Conn, error) {
			return s.BufListener.Dial()
		}))
	if err != nil {
		t.Fatal(err)
	}
	ctx, cancel := context.WithCancel(context.Background())
	t.Cleanup(func() {
		cancel()
		_ = conn.Close()
	})
	stream, err := discovery.NewAggregatedDiscoveryServiceClient(conn).StreamAggregatedResources(ctx)
	if err != nil {
		t.Fatal(err)
	}
	a := &findLSotw{
		t:      t,
		stream: stream,
		node:   &corev3.Node{Id: nodeID, Metadata: meta.ToStruct()},
		resp:   make(chan *discovery.DiscoveryResponse, 100),
		held:   map[string]*anypb.Any{},
		nameOf: nameOf,
	}
	go func() {
		for {
			r, err := stream.Recv()
			if err != nil {
				close(a.resp)
				return
			}
			a.resp <- r
		}
	}()
	if err := stream.Send(&discovery.DiscoveryRequest{Node: a.node, TypeUrl: typ}); err != nil {
		t.Fatal(err)
	}
	if !a.recv(5 * time.Second) {
		t.Fatalf("no initial %s response", typ)
	}
	return a
}

func (a *findLSotw) recv(timeout time.Duration) bool {
	a.t.Helper()
	select {
	case r, ok := <-a.resp:
		if !ok {
			a.t.Fatalf("stream closed")
		}
		m := map[string]*anypb.Any{}
		for _, res := range r.Resources {
			m[a.nameOf(res)] = res
		}
		a.held = m
		if err := a.stream.Send(&discovery.DiscoveryRequest{
			Node: a.node, TypeUrl: r.TypeUrl, ResponseNonce: r.Nonce, VersionInfo: r.VersionInfo,
		}); err != nil {
			a.t.Fatal(err)
		}
		return true
	case <-time.After(timeout):
		return false
	}
}

func (a *findLSotw) drain(quiet time.Duration) {
	for a.recv(quiet) {
	}
}

func findLClusterName(a *anypb.Any) string {
	c := &clusterv3.Cluster{}
	if err := a.UnmarshalTo(c); err != nil {
		panic(err)
	}
	return c.Name
}

func findLDeltaAnys(d *findLDelta) map[string]*anypb.Any {
	res := map[string]*anypb.Any{}
	for n, r := range d.held {
		res[n] = r.Resource
	}
	return res
}

// findLAllClusters returns every cluster an adsc client holds (adsc keeps EDS and non-EDS clusters apart).
func findLAllClusters(a *adsc.ADSC) map[string]*clusterv3.Cluster {
	res := map[string]*clusterv3.Cluster{}
	for n, c := range a.GetClusters() {
		res[n] = c
	}
	for n, c := range a.GetEdsClusters() {
		res[n] = c
	}
	return res
}

func findLDecodeClusters(t *testing.T, anys map[string]*anypb.Any) map[string]*clusterv3.Cluster {
	t.Helper()
	res := map[string]*clusterv3.Cluster{}
	for n, a := range anys {
		c := &clusterv3.Cluster{}
		if err := a.UnmarshalTo(c); err != nil {
			t.Fatal(err)
		}
		res[n] = c
	}
	return res
}
