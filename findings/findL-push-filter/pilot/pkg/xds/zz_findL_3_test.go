// Copyright Istio Authors
//
// Licensed under the Apache License, Version 2.0 (the "License");
// you may not use this file except in compliance with the License.
// You may obtain a copy of the License at
//
//     http://www.apache.org/licenses/LICENSE-2.0
//
// Unless required by applicable law or agreed to in writing, software
// distributed under the License is distributed on an "AS IS" BASIS,
// WITHOUT WARRANTIES OR CONDITIONS OF ANY KIND, either express or implied.
// See the License for the specific language governing permissions and
// limitations under the License.

package xds_test

// Finding L3: deleting the proxy's OWN Service is filtered out as irrelevant when the Sidecar egress scope of the proxy
// does not import that service.
//
// pushConnection first refreshes the proxy (computeProxyState -> SetServiceTargets, because a ServiceEntry key in the
// proxy's namespace changed) and only then asks DefaultProxyNeedsPush -> filterRelevantUpdates. The "proxy's own service
// was updated" test there iterates the ALREADY REFRESHED proxy.ServiceTargets, which no longer contain the deleted
// service (the same happens when the Service selector stops matching the workload). With a Sidecar whose egress hosts
// do not include the own service, SidecarScope.DependsOnConfig is false too, so the update is dropped and the inbound
// clusters / listener filter chains of the deleted service stay on the proxy.

import (
	"context"
	"sort"
	"strings"
	"testing"
	"time"

	listenerv3 "github.com/envoyproxy/go-control-plane/envoy/config/listener/v3"
	v1 "k8s.io/api/core/v1"
	metav1 "k8s.io/apimachinery/pkg/apis/meta/v1"
	"k8s.io/apimachinery/pkg/runtime"
	"k8s.io/apimachinery/pkg/util/intstr"

	"istio.io/istio/pilot/pkg/model"
	v3 "istio.io/istio/pilot/pkg/xds/v3"
	"istio.io/istio/pilot/test/xds"
)

const findL3Sidecar = `apiVersion: networking.istio.io/v1
kind: Sidecar
metadata:
  name: default
  namespace: app
spec:
  egress:
  - hosts:
    - %s
`

// findL3InboundPorts lists the destination ports of the filter chains of the virtualInbound listener.
func findL3InboundPorts(ls map[string]*listenerv3.Listener) []int {
	res := []int{}
	seen := map[uint32]bool{}
	if l := ls["virtualInbound"]; l != nil {
		for _, fc := range l.GetFilterChains() {
			p := fc.GetFilterChainMatch().GetDestinationPort().GetValue()
			if p != 0 && !seen[p] {
				seen[p] = true
				res = append(res, int(p))
			}
		}
	}
	sort.Ints(res)
	return res
}

func findL3Listeners(t *testing.T, held map[string]*listenerv3.Listener, more map[string]*listenerv3.Listener) map[string]*listenerv3.Listener {
	res := map[string]*listenerv3.Listener{}
	for n, l := range held {
		res[n] = l
	}
	for n, l := range more {
		res[n] = l
	}
	return res
}

func TestFindL3OwnServiceDeletedOutsideSidecarScope(t *testing.T) {
	const proxyIP = "10.7.0.1"
	pod := &v1.Pod{
		ObjectMeta: metav1.ObjectMeta{Name: "own-1", Namespace: "app", Labels: map[string]string{"app": "own"}},
		Spec:       v1.PodSpec{ServiceAccountName: "own"},
		Status: v1.PodStatus{
			PodIP:      proxyIP,
			PodIPs:     []v1.PodIP{{IP: proxyIP}},
			Phase:      v1.PodRunning,
			Conditions: []v1.PodCondition{{Type: v1.PodReady, Status: v1.ConditionTrue}},
		},
	}
	own := &v1.Service{
		ObjectMeta: metav1.ObjectMeta{Name: "own", Namespace: "app"},
		Spec: v1.ServiceSpec{
			ClusterIP: "10.8.0.1",
			Selector:  map[string]string{"app": "own"},
			Ports:     []v1.ServicePort{{Name: "http", Port: 80, TargetPort: intstr.FromInt32(8080)}},
		},
	}
	other := &v1.Service{
		ObjectMeta: metav1.ObjectMeta{Name: "other", Namespace: "other"},
		Spec: v1.ServiceSpec{
			ClusterIP: "10.8.0.2",
			Selector:  map[string]string{"app": "other"},
			Ports:     []v1.ServicePort{{Name: "http", Port: 80}},
		},
	}
	nsApp := &v1.Namespace{ObjectMeta: metav1.ObjectMeta{Name: "app"}}
	nsOther := &v1.Namespace{ObjectMeta: metav1.ObjectMeta{Name: "other"}}
	proxy := func() *model.Proxy {
		return &model.Proxy{
			ID:              "own-1.app",
			IPAddresses:     []string{proxyIP},
			ConfigNamespace: "app",
			Labels:          map[string]string{"app": "own"},
			Metadata:        &model.NodeMetadata{Namespace: "app", Labels: map[string]string{"app": "own"}},
		}
	}

	run := func(t *testing.T, egressHost string) {
		sidecar := strings.Replace(findL3Sidecar, "%s", `"`+egressHost+`"`, 1)
		s := xds.NewFakeDiscoveryServer(t, xds.FakeOptions{
			KubernetesObjects: []runtime.Object{nsApp, nsOther, pod, own, other},
			ConfigString:      sidecar,
		})
		ads := s.Connect(proxy(), []string{v3.ClusterType, v3.ListenerType}, []string{v3.ClusterType, v3.ListenerType})
		listeners := func() map[string]*listenerv3.Listener {
			return findL3Listeners(t, ads.GetHTTPListeners(), ads.GetTCPListeners())
		}
		clusters := findLAllClusters(ads)
		if clusters["inbound|8080||"] == nil {
			t.Fatalf("expected the inbound cluster of the own service, have %v", clusters)
		}
		t.Logf("before: virtualInbound filter chain ports=%v inbound|8080|| held=%v",
			findL3InboundPorts(listeners()), clusters["inbound|8080||"] != nil)

		// history: the proxy's own Service is deleted
		if err := s.KubeClient().Kube().CoreV1().Services("app").Delete(context.Background(), "own", metav1.DeleteOptions{}); err != nil {
			t.Fatal(err)
		}
		findLWaitQuiesced(t, s, proxyIP, 500*time.Millisecond, func() bool {
			return s.Env().PushContext().ServiceForHostname(nil, "own.app.svc.cluster.local") == nil
		})

		fresh := xds.NewFakeDiscoveryServer(t, xds.FakeOptions{
			KubernetesObjects: []runtime.Object{nsApp, nsOther, pod, other},
			ConfigString:      sidecar,
		})
		freshAds := fresh.Connect(proxy(), []string{v3.ClusterType, v3.ListenerType}, []string{v3.ClusterType, v3.ListenerType})

		t.Logf("after : virtualInbound filter chain ports: long-lived=%v fresh=%v", findL3InboundPorts(listeners()),
			findL3InboundPorts(findL3Listeners(t, freshAds.GetHTTPListeners(), freshAds.GetTCPListeners())))
		findLCompare(t, "CDS", findLAllClusters(ads), findLAllClusters(freshAds))
		findLCompare(t, "LDS", listeners(), findL3Listeners(t, freshAds.GetHTTPListeners(), freshAds.GetTCPListeners()))
	}

	t.Run("control: own namespace imported", func(t *testing.T) { run(t, "./*") })
	t.Run("own service outside the egress scope", func(t *testing.T) { run(t, "other/*") })
}
