// Copyright Istio Authors
//
// Licensed under the Apache License, Version 2.0 (the "License");
// you may not use this file except in compliance with the License.
// You may obtain a copy of the License at
//
//     http://www.apache.org/licenses/LICENSE-2.0
//
// Unless required by applicable law or agreed to in writing, software
// distributed under the License is distributed on an "AS IS" BASIS,
// WITHOUT WARRANTIES OR CONDITIONS OF ANY KIND, either express or implied.
// See the License for the specific language governing permissions and
// limitations under the License.

package xds_test

// Finding L4: delta CDS misses a Sidecar change that keeps a hostname imported but changes WHICH PORTS are imported.
//
// When only Sidecar / VirtualService keys changed, BuildDeltaClusters calls deltaFromServiceDiff, which compares the
// set of HOSTNAMES the proxy watches clusters for with the hostnames of the new SidecarScope. An egress listener with
// a port imports only that port of the matching services (IstioEgressListenerWrapper.matchPort ->
// serviceMatchingListenerPort; several listeners are merged per hostname in appendSidecarServices). Adding or removing
// a port-scoped egress listener for an already imported hostname therefore changes the per-port clusters a
// state-of-the-world generation contains, but the hostname diff sees "nothing added, nothing removed".

import (
	"fmt"
	"testing"
	"time"

	networking "istio.io/api/networking/v1alpha3"
	"istio.io/istio/pilot/pkg/model"
	v3 "istio.io/istio/pilot/pkg/xds/v3"
	"istio.io/istio/pilot/test/xds"
	"istio.io/istio/pkg/config"
	"istio.io/istio/pkg/config/schema/gvk"
)

const findL4Services = `apiVersion: networking.istio.io/v1
kind: ServiceEntry
metadata:
  name: a
  namespace: default
spec:
  hosts: [a.example.com]
  ports:
  - number: 80
    name: http
    protocol: HTTP
  - number: 81
    name: http-alt
    protocol: HTTP
  resolution: STATIC
  endpoints:
  - address: 1.1.1.1
---
apiVersion: networking.istio.io/v1
kind: ServiceEntry
metadata:
  name: b
  namespace: default
spec:
  hosts: [b.example.com]
  ports:
  - number: 80
    name: http
    protocol: HTTP
  resolution: STATIC
  endpoints:
  - address: 2.2.2.2
`

// findL4Sidecar builds a Sidecar with one port-scoped egress listener per entry ("<port>:<host>").
func findL4Sidecar(listeners ...[2]string) config.Config {
	sc := &networking.Sidecar{}
	for _, l := range listeners {
		var port uint32
		fmt.Sscanf(l[0], "%d", &port)
		sc.Egress = append(sc.Egress, &networking.IstioEgressListener{
			Port:  &networking.SidecarPort{Number: port, Protocol: "HTTP", Name: "http-" + l[0]},
			Hosts: []string{"*/" + l[1]},
		})
	}
	return config.Config{
		Meta: config.Meta{GroupVersionKind: gvk.Sidecar, Name: "default", Namespace: "default"},
		Spec: sc,
	}
}

func TestFindL4PortScopedEgressListenerChange(t *testing.T) {
	const proxyIP = "10.99.0.4"
	const nodeID = "sidecar~" + proxyIP + "~client.default~default.svc.cluster.local"
	meta := model.NodeMetadata{Namespace: "default", IstioVersion: "1.23.0"}
	p80a := [2]string{"80", "a.example.com"}
	p81a := [2]string{"81", "a.example.com"}
	p80b := [2]string{"80", "b.example.com"}

	run := func(t *testing.T, before, after config.Config) {
		s := xds.NewFakeDiscoveryServer(t, xds.FakeOptions{ConfigString: findL4Services, Configs: []config.Config{before}})
		delta := findLConnectDelta(t, s, nodeID, meta, v3.ClusterType)
		sotw := findLConnectSotw(t, s, "sidecar~10.99.0.5~sotw.default~default.svc.cluster.local", meta, v3.ClusterType, findLClusterName)
		t.Logf("before: delta client holds %v", delta.names())

		// history: only the Sidecar changes (ConfigsUpdated={Sidecar})
		if _, err := s.Store().Update(after); err != nil {
			t.Fatal(err)
		}
		findLWaitQuiesced(t, s, proxyIP, 300*time.Millisecond, func() bool {
			// the connection of the delta client was recomputed with the new Sidecar
			for _, c := range s.Discovery.Clients() {
				if c.Proxy().IPAddresses[0] != proxyIP {
					continue
				}
				c.Proxy().RLock()
				sc := c.Proxy().SidecarScope
				c.Proxy().RUnlock()
				return sc != nil && len(sc.Sidecar.GetEgress()) == len(after.Spec.(*networking.Sidecar).Egress)
			}
			return false
		})
		delta.drain(300 * time.Millisecond)
		sotw.drain(300 * time.Millisecond)
		for _, l := range delta.log[1:] {
			t.Logf("delta response after the change: %s", l)
		}

		fresh := xds.NewFakeDiscoveryServer(t, xds.FakeOptions{ConfigString: findL4Services, Configs: []config.Config{after}})
		freshDelta := findLConnectDelta(t, fresh, nodeID, meta, v3.ClusterType)

		want := findLDecodeClusters(t, findLDeltaAnys(freshDelta))
		t.Logf("state-of-the-world client on the same server holds %v", func() []string {
			r := []string{}
			for n := range sotw.held {
				r = append(r, n)
			}
			return r
		}())
		if n := findLCompare(t, "CDS(sotw client)", findLDecodeClusters(t, sotw.held), want); n != 0 {
			t.Fatalf("the state-of-the-world client is expected to be right")
		}
		findLCompare(t, "CDS(delta client)", findLDecodeClusters(t, findLDeltaAnys(delta)), want)
	}

	t.Run("control: egress listener for another hostname added", func(t *testing.T) {
		run(t, findL4Sidecar(p80a), findL4Sidecar(p80a, p80b))
	})
	t.Run("control: egress listener for another hostname removed", func(t *testing.T) {
		run(t, findL4Sidecar(p80a, p80b), findL4Sidecar(p80a))
	})
	t.Run("port-scoped egress listener for the same hostname added", func(t *testing.T) {
		run(t, findL4Sidecar(p80a), findL4Sidecar(p80a, p81a))
	})
	t.Run("port-scoped egress listener for the same hostname removed", func(t *testing.T) {
		run(t, findL4Sidecar(p80a, p81a), findL4Sidecar(p80a))
	})
}
