// Copyright Istio Authors
//
// Licensed under the Apache License, Version 2.0 (the "License");
// you may not use this file except in compliance with the License.
// You may obtain a copy of the License at
//
//     http://www.apache.org/licenses/LICENSE-2.0
//
// Unless required by applicable law or agreed to in writing, software
// distributed under the License is distributed on an "AS IS" BASIS,
// WITHOUT WARRANTIES OR CONDITIONS OF ANY KIND, either express or implied.
// See the License for the specific language governing permissions and
// limitations under the License.

package xds_test

// Finding L5: the per-port index used by delta CDS on the "port removed" branch keeps ONE cluster per (host, port).
//
// BuildDeltaClusters builds   servicePortClusters[host][port] = clusterName   from the watched cluster names. A service
// port with DestinationRule subsets has several clusters (outbound|81||host, outbound|81|v1|host, ...), which overwrite
// each other in that map (the survivor depends on map iteration order). When a Service update removes the port,
// deltaFromServices only looks at servicePortClusters, so only the surviving name is reported as removed and the delta
// client keeps the other clusters of the removed port; a state-of-the-world client gets the right set.

import (
	"strings"
	"testing"
	"time"

	"istio.io/istio/pilot/pkg/model"
	v3 "istio.io/istio/pilot/pkg/xds/v3"
	"istio.io/istio/pilot/test/xds"
	"istio.io/istio/pkg/config"
	"istio.io/istio/pkg/config/schema/gvk"
	"istio.io/istio/pkg/test/util/retry"

	networking "istio.io/api/networking/v1alpha3"
)

const findL5DestinationRule = `apiVersion: networking.istio.io/v1
kind: DestinationRule
metadata:
  name: a
  namespace: default
spec:
  host: a.example.com
  subsets:
  - name: v1
    labels:
      version: v1
  - name: v2
    labels:
      version: v2
`

func findL5ServiceEntry(ports ...uint32) config.Config {
	se := &networking.ServiceEntry{
		Hosts:      []string{"a.example.com"},
		Resolution: networking.ServiceEntry_STATIC,
		Endpoints:  []*networking.WorkloadEntry{{Address: "1.1.1.1", Labels: map[string]string{"version": "v1"}}},
	}
	for _, p := range ports {
		name := "http"
		if p != 80 {
			name = "http-alt"
		}
		se.Ports = append(se.Ports, &networking.ServicePort{Number: p, Name: name, Protocol: "HTTP"})
	}
	return config.Config{
		Meta: config.Meta{GroupVersionKind: gvk.ServiceEntry, Name: "a", Namespace: "default"},
		Spec: se,
	}
}

func TestFindL5RemovedPortWithSubsetClusters(t *testing.T) {
	const proxyIP = "10.99.0.6"
	const nodeID = "sidecar~" + proxyIP + "~client.default~default.svc.cluster.local"
	meta := model.NodeMetadata{Namespace: "default", IstioVersion: "1.23.0"}

	run := func(t *testing.T, destinationRule string) {
		s := xds.NewFakeDiscoveryServer(t, xds.FakeOptions{ConfigString: destinationRule, Configs: []config.Config{findL5ServiceEntry(80, 81)}})
		delta := findLConnectDelta(t, s, nodeID, meta, v3.ClusterType)
		sotw := findLConnectSotw(t, s, "sidecar~10.99.0.7~sotw.default~default.svc.cluster.local", meta, v3.ClusterType, findLClusterName)
		t.Logf("before: delta client holds %v", delta.names())

		// history: port 81 is removed from the service (ConfigsUpdated={ServiceEntry a.example.com})
		if _, err := s.Store().Update(findL5ServiceEntry(80)); err != nil {
			t.Fatal(err)
		}
		retry.UntilOrFail(t, func() bool {
			svc := s.Env().PushContext().ServiceForHostname(nil, "a.example.com")
			return svc != nil && len(svc.Ports) == 1
		}, retry.Timeout(10*time.Second), retry.Delay(10*time.Millisecond))
		findLWaitQuiesced(t, s, proxyIP, 300*time.Millisecond, func() bool { return true })
		delta.drain(300 * time.Millisecond)
		sotw.drain(300 * time.Millisecond)
		for _, l := range delta.log[1:] {
			t.Logf("delta response after the change: %s", l)
		}

		fresh := xds.NewFakeDiscoveryServer(t, xds.FakeOptions{ConfigString: destinationRule, Configs: []config.Config{findL5ServiceEntry(80)}})
		freshDelta := findLConnectDelta(t, fresh, nodeID, meta, v3.ClusterType)
		want := findLDecodeClusters(t, findLDeltaAnys(freshDelta))

		if n := findLCompare(t, "CDS(sotw client)", findLDecodeClusters(t, sotw.held), want); n != 0 {
			t.Fatalf("the state-of-the-world client is expected to be right")
		}
		findLCompare(t, "CDS(delta client)", findLDecodeClusters(t, findLDeltaAnys(delta)), want)
		stale := []string{}
		for _, n := range delta.names() {
			if strings.HasPrefix(n, "outbound|81|") {
				stale = append(stale, n)
			}
		}
		t.Logf("clusters of the removed port 81 still held by the delta client: %v", stale)
	}

	t.Run("control: no subsets", func(t *testing.T) { run(t, "") })
	t.Run("DestinationRule with subsets", func(t *testing.T) { run(t, findL5DestinationRule) })
}
