// Copyright Istio Authors
//
// Licensed under the Apache License, Version 2.0 (the "License");
// you may not use this file except in compliance with the License.
// You may obtain a copy of the License at
//
//     http://www.apache.org/licenses/LICENSE-2.0
//
// Unless required by applicable law or agreed to in writing, software
// distributed under the License is distributed on an "AS IS" BASIS,
// WITHOUT WARRANTIES OR CONDITIONS OF ANY KIND, either express or implied.
// See the License for the specific language governing permissions and
// limitations under the License.

package xds_test

// Finding L2: removing the LAST WorkloadEntry selected by a DNS-resolution ServiceEntry does not push CDS.
//
// A DNS / DNS_ROUND_ROBIN ServiceEntry with a workloadSelector gets a STRICT_DNS / LOGICAL_DNS cluster whose endpoints
// are INLINED in the cluster (cluster.load_assignment), so every change of the selected WorkloadEntries needs a CDS
// push. serviceentry.Controller.pushServiceEndpointUpdates requests that full push only when
//     obj.HasDNSServiceEndpoint && e.Event == controllers.EventUpdate
// where obj is the NEW InstancesByNamespaceHost, and HasDNSServiceEndpoint is computed by iterating the new instances
// (conversion.go mergeServicesInstancesByNamespaceHost). When the last selected WorkloadEntry goes away the new
// instance list is empty, HasDNSServiceEndpoint is false, and only an incremental EDS update is requested.

import (
	"fmt"
	"testing"
	"time"

	clusterv3 "github.com/envoyproxy/go-control-plane/envoy/config/cluster/v3"

	"istio.io/istio/pilot/pkg/model"
	v3 "istio.io/istio/pilot/pkg/xds/v3"
	"istio.io/istio/pilot/test/xds"
	"istio.io/istio/pkg/config/schema/gvk"
)

const (
	findL2ServiceEntry = `apiVersion: networking.istio.io/v1
kind: ServiceEntry
metadata:
  name: dns-selector
  namespace: default
spec:
  hosts: [dns.example.com]
  location: MESH_EXTERNAL
  ports:
  - number: 80
    name: http
    protocol: HTTP
  resolution: DNS
  workloadSelector:
    labels:
      app: dns-backend
`
	findL2WorkloadEntry = `apiVersion: networking.istio.io/v1
kind: WorkloadEntry
metadata:
  name: %s
  namespace: default
spec:
  address: %s
  labels:
    app: dns-backend
`
	findL2Cluster = "outbound|80||dns.example.com"
)

func findL2Addresses(c *clusterv3.Cluster) []string {
	if c == nil {
		return nil
	}
	res := []string{}
	for _, l := range c.GetLoadAssignment().GetEndpoints() {
		for _, e := range l.GetLbEndpoints() {
			res = append(res, e.GetEndpoint().GetAddress().GetSocketAddress().GetAddress())
		}
	}
	return res
}

func TestFindL2LastDNSWorkloadEntryRemoval(t *testing.T) {
	we := func(name, addr string) string { return fmt.Sprintf(findL2WorkloadEntry, name, addr) }
	proxy := func() *model.Proxy {
		return &model.Proxy{
			ID:              "client.default",
			IPAddresses:     []string{"10.99.0.2"},
			ConfigNamespace: "default",
			Metadata:        &model.NodeMetadata{Namespace: "default"},
		}
	}

	run := func(t *testing.T, initial []string, remove string, final []string) {
		cfg := findL2ServiceEntry
		for _, w := range initial {
			cfg += "---\n" + w
		}
		s := xds.NewFakeDiscoveryServer(t, xds.FakeOptions{ConfigString: cfg})
		ads := s.Connect(proxy(), nil, []string{v3.ClusterType})
		c := findLAllClusters(ads)[findL2Cluster]
		if c == nil {
			t.Fatalf("no cluster %v", findL2Cluster)
		}
		t.Logf("before: %s type=%v inlined endpoints=%v", findL2Cluster, c.GetType(), findL2Addresses(c))
		want := len(findL2Addresses(c)) - 1

		if err := s.Store().Delete(gvk.WorkloadEntry, remove, "default", nil); err != nil {
			t.Fatal(err)
		}
		findLWaitQuiesced(t, s, "10.99.0.2", 500*time.Millisecond, func() bool {
			// the removal reached the endpoint index
			sh, f := s.Env().EndpointIndex.ShardsForService("dns.example.com", "default")
			n := 0
			if f {
				for _, eps := range sh.Shards {
					n += len(eps)
				}
			}
			return n == want
		})

		freshCfg := findL2ServiceEntry
		for _, w := range final {
			freshCfg += "---\n" + w
		}
		fresh := xds.NewFakeDiscoveryServer(t, xds.FakeOptions{ConfigString: freshCfg})
		freshAds := fresh.Connect(proxy(), nil, []string{v3.ClusterType})

		held := findLAllClusters(ads)
		t.Logf("after : %s held by the long-lived proxy: inlined endpoints=%v", findL2Cluster, findL2Addresses(held[findL2Cluster]))
		findLCompare(t, "CDS", held, findLAllClusters(freshAds))
	}

	t.Run("control: one of two WorkloadEntries removed", func(t *testing.T) {
		run(t, []string{we("we-1", "we1.example.com"), we("we-2", "we2.example.com")}, "we-2", []string{we("we-1", "we1.example.com")})
	})
	t.Run("last WorkloadEntry removed", func(t *testing.T) {
		run(t, []string{we("we-1", "we1.example.com")}, "we-1", nil)
	})
	// same with an IP address in the WorkloadEntry: the STRICT_DNS cluster inlines it just the same
	t.Run("last WorkloadEntry (IP address) removed", func(t *testing.T) {
		run(t, []string{we("we-1", "4.4.4.4")}, "we-1", nil)
	})
}
