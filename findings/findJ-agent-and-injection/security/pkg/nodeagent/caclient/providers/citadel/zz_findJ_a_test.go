// Copyright Istio Authors
//
// Licensed under the Apache License, Version 2.0 (the "License");
// you may not use this file except in compliance with the License.
// You may obtain a copy of the License at
//
//     http://www.apache.org/licenses/LICENSE-2.0
//
// Unless required by applicable law or agreed to in writing, software
// distributed under the License is distributed on an "AS IS" BASIS,
// WITHOUT WARRANTIES OR CONDITIONS OF ANY KIND, either express or implied.
// See the License for the specific language governing permissions and
// limitations under the License.

package citadel

import (
	"context"
	"net"
	"os"
	"path/filepath"
	"reflect"
	"sync/atomic"
	"testing"

	"google.golang.org/grpc"
	"google.golang.org/grpc/codes"
	"google.golang.org/grpc/status"

	pb "istio.io/api/security/v1alpha1"
	"istio.io/istio/pkg/config/constants"
	"istio.io/istio/pkg/security"
	"istio.io/istio/pkg/test/env"
	"istio.io/istio/security/pkg/credentialfetcher/plugin"
)

// Property C18: "a failed signing attempt is not sticky - the next request retries".
//
// CSRSign rebuilds the gRPC connection after every failed signing attempt so that a rotated root
// certificate is picked up (see the comment in CSRSign). reconnect() closes the old connection
// *before* it builds the new one. If building the new one fails (buildConnection re-reads the root
// certificate file, which is exactly the file that is being rotated), the client keeps the closed
// connection. Every later CSRSign fails with "the client connection is closing", and every later
// reconnect() returns early because closing an already closed grpc.ClientConn is an error, so
// buildConnection is never attempted again. One transient failure disables the CA client for the
// lifetime of the agent.

type findJFlakyCAServer struct {
	pb.UnimplementedIstioCertificateServiceServer
	fail  atomic.Bool
	calls atomic.Int32
}

func (ca *findJFlakyCAServer) CreateCertificate(context.Context, *pb.IstioCertificateRequest) (*pb.IstioCertificateResponse, error) {
	ca.calls.Add(1)
	if ca.fail.Load() {
		// PermissionDenied is not in security.CARetryOptions, so the call fails fast.
		return nil, status.Error(codes.PermissionDenied, "transient CA outage")
	}
	return &pb.IstioCertificateResponse{CertChain: fakeCert}, nil
}

func findJServe(t *testing.T, ca *findJFlakyCAServer) string {
	t.Helper()
	s := grpc.NewServer(tlsOptions(t))
	t.Cleanup(s.Stop)
	lis, err := net.Listen("tcp", mockServerAddress)
	if err != nil {
		t.Fatalf("failed to listen: %v", err)
	}
	pb.RegisterIstioCertificateServiceServer(s, ca)
	go func() {
		_ = s.Serve(lis)
	}()
	_, port, _ := net.SplitHostPort(lis.Addr().String())
	return "localhost:" + port
}

func findJNewClient(t *testing.T, addr, rootCert string) *CitadelClient {
	t.Helper()
	opts := &security.Options{
		CAEndpoint:  addr,
		CredFetcher: plugin.CreateTokenPlugin("testdata/token"),
	}
	cli, err := NewCitadelClient(opts, &TLSOptions{RootCert: rootCert})
	if err != nil {
		t.Fatalf("failed to create ca client: %v", err)
	}
	t.Cleanup(cli.Close)
	return cli
}

func findJSign(cli *CitadelClient) error {
	resp, err := cli.CSRSign([]byte{0o1}, 1)
	if err != nil {
		return err
	}
	if !reflect.DeepEqual(resp, fakeCert) {
		return status.Errorf(codes.Unknown, "unexpected cert chain %v", resp)
	}
	return nil
}

func TestFindJ_A_FailedReconnectIsNotSticky(t *testing.T) {
	srcRoot, err := os.ReadFile(filepath.Join(env.IstioSrc, "tests/testdata/certs/pilot", constants.RootCertFilename))
	if err != nil {
		t.Fatal(err)
	}
	rootCert := filepath.Join(t.TempDir(), constants.RootCertFilename)
	if err := os.WriteFile(rootCert, srcRoot, 0o600); err != nil {
		t.Fatal(err)
	}

	server := &findJFlakyCAServer{}
	cli := findJNewClient(t, findJServe(t, server), rootCert)

	if err := findJSign(cli); err != nil {
		t.Fatalf("healthy CA: first CSR must be signed: %v", err)
	}

	// Transient outage: the CA rejects the request and, while the client rebuilds its connection,
	// the root certificate file cannot be read (it is being replaced).
	server.fail.Store(true)
	if err := os.Remove(rootCert); err != nil {
		t.Fatal(err)
	}
	if err := findJSign(cli); err == nil {
		t.Fatalf("expected the signing attempt during the outage to fail")
	}

	// The outage is over: the CA is healthy and the root certificate is back.
	server.fail.Store(false)
	if err := os.WriteFile(rootCert, srcRoot, 0o600); err != nil {
		t.Fatal(err)
	}

	// The failed attempt must not be sticky. The client reconnects as a side effect of a failed
	// call, so allow a couple of attempts for it to recover; it must not stay broken for good.
	const attempts = 3
	callsBefore := server.calls.Load()
	var lastErr error
	for i := 1; i <= attempts; i++ {
		if lastErr = findJSign(cli); lastErr == nil {
			t.Logf("recovered on attempt %d after the outage", i)
			return
		}
		t.Logf("attempt %d after the outage failed: %v", i, lastErr)
	}
	t.Fatalf("C18 violated: a failed signing attempt is sticky. The CA and the root certificate are healthy again, but "+
		"%d consecutive CSRSign calls failed and only %d of them reached the CA; last error: %v",
		attempts, server.calls.Load()-callsBefore, lastErr)
}

// Control: the same outage without the root certificate being unreadable. reconnect() succeeds, so
// the next request is signed. Passes on the current tree.
func TestFindJ_A_Control_SuccessfulReconnectRecovers(t *testing.T) {
	rootCert := filepath.Join(env.IstioSrc, "tests/testdata/certs/pilot", constants.RootCertFilename)
	server := &findJFlakyCAServer{}
	cli := findJNewClient(t, findJServe(t, server), rootCert)

	if err := findJSign(cli); err != nil {
		t.Fatalf("healthy CA: first CSR must be signed: %v", err)
	}
	server.fail.Store(true)
	if err := findJSign(cli); err == nil {
		t.Fatalf("expected the signing attempt during the outage to fail")
	}
	server.fail.Store(false)
	if err := findJSign(cli); err != nil {
		t.Fatalf("the request after the outage must be signed: %v", err)
	}
}
