// Copyright Istio Authors
//
// Licensed under the Apache License, Version 2.0 (the "License");
// you may not use this file except in compliance with the License.
// You may obtain a copy of the License at
//
//     http://www.apache.org/licenses/LICENSE-2.0
//
// Unless required by applicable law or agreed to in writing, software
// distributed under the License is distributed on an "AS IS" BASIS,
// WITHOUT WARRANTIES OR CONDITIONS OF ANY KIND, either express or implied.
// See the License for the specific language governing permissions and
// limitations under the License.

package cache

import (
	"fmt"
	"os"
	"path/filepath"
	"slices"
	"testing"
	"time"

	"istio.io/istio/pkg/security"
	"istio.io/istio/pkg/test/util/retry"
)

// Property C18: "file-mounted certificates are re-read when the files change ... and watches
// survive errors."
//
// tryAddFileWatcher records the file in sc.fileCerts *before* it calls certWatcher.Add, and does not
// remove the entry when Add fails (addSymlinkWatcher does: delete(sc.fileCerts, key) on every error
// path). addFileWatcher then starts its "retry for ever till the watcher is added" loop, but the
// first retry finds the stale entry, logs "already watching" and returns nil, which ends the loop.
// Every later GenerateSecret for the resource takes the same early return. The file is never
// watched, so later changes of the mounted certificate are never pushed to the proxy.
//
// The tests make certWatcher.Add fail once in the simplest way available without fakes: the file
// does not exist at the time of the first attempt (in production the usual causes are ENOSPC from
// fs.inotify.max_user_watches / EMFILE from max_user_instances, or the file being replaced between
// the read and the Add).

func findJWatched(sc *SecretManagerClient, file string) bool {
	return slices.Contains(sc.certWatcher.WatchList(), file)
}

func findJResolvedTempDir(t *testing.T) string {
	t.Helper()
	// Make sure that no path component is a symlink, so that addFileWatcher picks the regular file
	// watcher (tryAddFileWatcher) and not addSymlinkWatcher.
	dir, err := filepath.EvalSymlinks(t.TempDir())
	if err != nil {
		t.Fatal(err)
	}
	return dir
}

// Drives the function directly, the way the retry loop in addFileWatcher does.
func TestFindJ_B_TryAddFileWatcherRetryAfterFailedAdd(t *testing.T) {
	sc := createCache(t, nil, func(string) {}, security.Options{})
	file := filepath.Join(findJResolvedTempDir(t), "cert-chain.pem")

	if err := sc.tryAddFileWatcher(file, "default"); err == nil {
		t.Fatalf("setup: expected certWatcher.Add to fail for a file that does not exist yet")
	}
	if findJWatched(sc, file) {
		t.Fatalf("setup: file must not be watched after a failed Add")
	}

	// The cause of the failure goes away.
	if err := os.WriteFile(file, []byte("v1"), 0o600); err != nil {
		t.Fatal(err)
	}

	// The retry. It may fail again (and be retried again), but it must not claim success while the
	// file is not watched.
	err := sc.tryAddFileWatcher(file, "default")
	if err == nil && !findJWatched(sc, file) {
		t.Fatalf("C18 violated: the retry after a failed certWatcher.Add returned nil (\"already watching\") but %s is not "+
			"watched; watch list: %v, fileCerts: %v", file, sc.certWatcher.WatchList(), sc.fileCerts)
	}
	if err != nil {
		t.Fatalf("retry failed although the file exists now: %v", err)
	}
}

// End to end through addFileWatcher, its retry loop and handleFileWatch.
func TestFindJ_B_WatchSurvivesFailedAdd(t *testing.T) {
	u := NewUpdateTracker(t)
	sc := createCache(t, nil, u.Callback, security.Options{})
	file := filepath.Join(findJResolvedTempDir(t), "cert-chain.pem")

	// First attempt fails, addFileWatcher starts the background retry loop (500ms initial backoff).
	sc.addFileWatcher(file, "default")
	if findJWatched(sc, file) {
		t.Fatalf("setup: file must not be watched yet")
	}
	if err := os.WriteFile(file, []byte("v1"), 0o600); err != nil {
		t.Fatal(err)
	}

	// "retry for ever till the watcher is added": the loop must end with the file being watched.
	if err := retry.UntilSuccess(func() error {
		if !findJWatched(sc, file) {
			return fmt.Errorf("%s not watched; watch list: %v", file, sc.certWatcher.WatchList())
		}
		return nil
	}, retry.Timeout(10*time.Second), retry.Delay(100*time.Millisecond)); err != nil {
		t.Fatalf("C18 violated: the watch did not survive a failed certWatcher.Add; the retry loop gave up: %v", err)
	}

	// And a change of the mounted certificate is announced.
	u.Reset()
	if err := os.WriteFile(file, []byte("v2"), 0o600); err != nil {
		t.Fatal(err)
	}
	retry.UntilSuccessOrFail(t, func() error {
		u.mu.Lock()
		defer u.mu.Unlock()
		if u.hits["default"] == 0 {
			return fmt.Errorf("no update for the changed certificate file, got %v", u.hits)
		}
		return nil
	}, retry.Timeout(10*time.Second))
}

// Control: when the first certWatcher.Add succeeds the file is watched and a change is announced.
// Passes on the current tree.
func TestFindJ_B_Control_WatchWithoutFailure(t *testing.T) {
	u := NewUpdateTracker(t)
	sc := createCache(t, nil, u.Callback, security.Options{})
	file := filepath.Join(findJResolvedTempDir(t), "cert-chain.pem")
	if err := os.WriteFile(file, []byte("v1"), 0o600); err != nil {
		t.Fatal(err)
	}

	sc.addFileWatcher(file, "default")
	if !findJWatched(sc, file) {
		t.Fatalf("file must be watched; watch list: %v", sc.certWatcher.WatchList())
	}
	// Asking again is a no-op and keeps the watch.
	if err := sc.tryAddFileWatcher(file, "default"); err != nil {
		t.Fatal(err)
	}
	if got := len(sc.certWatcher.WatchList()); got != 1 {
		t.Fatalf("expected exactly one watch, got %v", sc.certWatcher.WatchList())
	}

	if err := os.WriteFile(file, []byte("v2"), 0o600); err != nil {
		t.Fatal(err)
	}
	retry.UntilSuccessOrFail(t, func() error {
		u.mu.Lock()
		defer u.mu.Unlock()
		if u.hits["default"] == 0 {
			return fmt.Errorf("no update for the changed certificate file, got %v", u.hits)
		}
		return nil
	}, retry.Timeout(10*time.Second))
}
