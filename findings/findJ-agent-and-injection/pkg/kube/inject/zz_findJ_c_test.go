// Copyright Istio Authors
//
// Licensed under the Apache License, Version 2.0 (the "License");
// you may not use this file except in compliance with the License.
// You may obtain a copy of the License at
//
//     http://www.apache.org/licenses/LICENSE-2.0
//
// Unless required by applicable law or agreed to in writing, software
// distributed under the License is distributed on an "AS IS" BASIS,
// WITHOUT WARRANTIES OR CONDITIONS OF ANY KIND, either express or implied.
// See the License for the specific language governing permissions and
// limitations under the License.

package inject

import (
	"encoding/json"
	"fmt"
	"os"
	"strings"
	"testing"

	corev1 "k8s.io/api/core/v1"
	metav1 "k8s.io/apimachinery/pkg/apis/meta/v1"
	"k8s.io/apimachinery/pkg/runtime"

	"istio.io/istio/pilot/pkg/model"
	"istio.io/istio/pilot/test/util"
	"istio.io/istio/pkg/config/constants"
	"istio.io/istio/pkg/kube"
	"istio.io/istio/pkg/kube/kubetypes"
	"istio.io/istio/pkg/kube/multicluster"
	"istio.io/istio/pkg/test"
)

// Property C19: "Injection is idempotent: inject(inject(pod)) == inject(pod) - re-invocation of the
// webhook on an already injected pod (reinvocationPolicy, or kube-inject output being admitted) does
// not change it, and user overrides of the istio-proxy container survive."
//
// The "idempotency" subtest of runWebhook compares the output of the *first* injection with the
// golden file a second time; it never feeds an injected pod back into the webhook. These tests do:
// the pod is injected through Webhook.inject exactly like runWebhook does, the patched pod is sent
// through the same webhook (same config) again, and the two injected pods are compared.

func findJWebhook(t *testing.T) *Webhook {
	t.Helper()
	// Same environment as TestInjection.
	objects := []runtime.Object{
		&corev1.Node{
			ObjectMeta: metav1.ObjectMeta{Name: "node-1"},
			Status:     corev1.NodeStatus{NodeInfo: corev1.NodeSystemInfo{KubeletVersion: "v1.33.0"}},
		},
		&corev1.Node{
			ObjectMeta: metav1.ObjectMeta{Name: "node-2"},
			Status:     corev1.NodeStatus{NodeInfo: corev1.NodeSystemInfo{KubeletVersion: "v1.34.0"}},
		},
	}
	multi := multicluster.NewFakeController()
	client := kube.NewFakeClient(objects...)
	namespaces := multicluster.BuildMultiClusterKclientComponent[*corev1.Namespace](multi, kubetypes.Filter{})
	nodes := multicluster.BuildMultiClusterKclientComponent[*corev1.Node](multi, kubetypes.Filter{})
	stop := test.NewStop(t)
	multi.Add(constants.DefaultClusterName, client, stop)
	client.RunAndWait(stop)

	sidecarTemplate, valuesConfig, mc := getInjectionSettings(t, nil, "")
	env := &model.Environment{}
	env.SetPushContext(&model.PushContext{ProxyConfigs: &model.ProxyConfigs{}})
	return &Webhook{
		Config:       sidecarTemplate,
		meshConfig:   mc,
		env:          env,
		valuesConfig: valuesConfig,
		revision:     "default",
		namespaces:   namespaces,
		nodes:        nodes,
	}
}

// findJInjectOnce sends the pod through the webhook and applies the returned patch, like runWebhook.
func findJInjectOnce(t *testing.T, wh *Webhook, pod *corev1.Pod, namespace string) *corev1.Pod {
	t.Helper()
	podJSON := convertToJSON(pod, t)
	got := wh.inject(&kube.AdmissionReview{
		Request: &kube.AdmissionRequest{
			Object:    runtime.RawExtension{Raw: podJSON},
			Namespace: namespace,
		},
	}, "")
	if !got.Allowed {
		t.Fatalf("injection rejected: %+v", got.Result)
	}
	if got.Patch == nil {
		return pod.DeepCopy()
	}
	patched := &corev1.Pod{}
	if err := json.Unmarshal(applyJSONPatch(podJSON, prettyJSON(got.Patch, t), t), patched); err != nil {
		t.Fatal(err)
	}
	return patched
}

func findJPrettyPod(t *testing.T, pod *corev1.Pod) string {
	t.Helper()
	return string(prettyJSON(convertToJSON(pod, t), t))
}

// findJCheckIdempotent returns the once-injected and the twice-injected pod, and an error if they differ.
func findJCheckIdempotent(t *testing.T, wh *Webhook, inputYAML []byte) (once, twice *corev1.Pod, err error) {
	t.Helper()
	raw, err := FromRawToObject(inputYAML)
	if err != nil {
		t.Fatal(err)
	}
	input := objectToPod(t, raw)
	ns := jsonToUnstructured(inputYAML, t).GetNamespace()

	once = findJInjectOnce(t, wh, input, ns)
	if FindSidecar(once) == nil {
		t.Fatalf("setup: first injection did not inject an istio-proxy container")
	}
	twice = findJInjectOnce(t, wh, once, ns)
	return once, twice, util.Compare([]byte(findJPrettyPod(t, twice)), []byte(findJPrettyPod(t, once)))
}

func findJProxySummary(pod *corev1.Pod) string {
	c := FindSidecar(pod)
	if c == nil {
		return "<no istio-proxy>"
	}
	var uid, gid any = "<nil>", "<nil>"
	if c.SecurityContext != nil {
		if c.SecurityContext.RunAsUser != nil {
			uid = *c.SecurityContext.RunAsUser
		}
		if c.SecurityContext.RunAsGroup != nil {
			gid = *c.SecurityContext.RunAsGroup
		}
	}
	return fmt.Sprintf("image=%s cpu(req/lim)=%s/%s runAsUser=%v runAsGroup=%v tty=%v terminationMessagePath=%q",
		c.Image, c.Resources.Requests.Cpu(), c.Resources.Limits.Cpu(), uid, gid, c.TTY, c.TerminationMessagePath)
}

func TestFindJ_C_ReinjectionKeepsProxyOverrides(t *testing.T) {
	wh := findJWebhook(t)
	for _, in := range []string{
		"proxy-override.yaml",
		"proxy-override-args.yaml",
		"proxy-override-runas.yaml",
		"multiple-templates.yaml",
	} {
		t.Run(in, func(t *testing.T) {
			for i, part := range splitYamlFile("testdata/inject/"+in, t) {
				t.Run(fmt.Sprintf("yamlPart[%d]", i), func(t *testing.T) {
					once, twice, err := findJCheckIdempotent(t, wh, part)
					if err != nil {
						t.Logf("istio-proxy after inject(pod):         %s", findJProxySummary(once))
						t.Logf("istio-proxy after inject(inject(pod)): %s", findJProxySummary(twice))
						t.Fatalf("C19 violated: inject(inject(pod)) != inject(pod) for %s; the user's istio-proxy overrides did not "+
							"survive re-invocation of the webhook. Diff (-once +twice):\n%v", in, err)
					}
				})
			}
		})
	}
}

// Control: without user overrides of injected containers re-injection is a fixed point.
// Passes on the current tree.
func TestFindJ_C_Control_ReinjectionWithoutOverrides(t *testing.T) {
	wh := findJWebhook(t)
	for _, in := range []string{"hello.yaml", "hello-probes.yaml", "native-sidecar.yaml"} {
		t.Run(in, func(t *testing.T) {
			for i, part := range splitYamlFile("testdata/inject/"+in, t) {
				t.Run(fmt.Sprintf("yamlPart[%d]", i), func(t *testing.T) {
					if _, _, err := findJCheckIdempotent(t, wh, part); err != nil {
						t.Fatalf("inject(inject(pod)) != inject(pod) for %s:\n%v", in, err)
					}
				})
			}
		})
	}
}

// Survey, not part of the verdict: FINDJ_SURVEY=1 re-injects every fixture that works with the default
// settings and logs the ones that are not a fixed point.
func TestFindJ_C_Survey(t *testing.T) {
	if os.Getenv("FINDJ_SURVEY") == "" {
		t.Skip("set FINDJ_SURVEY=1")
	}
	wh := findJWebhook(t)
	files, err := os.ReadDir("testdata/inject")
	if err != nil {
		t.Fatal(err)
	}
	for _, f := range files {
		if !strings.HasSuffix(f.Name(), ".yaml") || strings.HasSuffix(f.Name(), ".iop.yaml") {
			continue
		}
		t.Run(f.Name(), func(t *testing.T) {
			for i, part := range splitYamlFile("testdata/inject/"+f.Name(), t) {
				t.Run(fmt.Sprintf("yamlPart[%d]", i), func(t *testing.T) {
					if _, _, err := findJCheckIdempotent(t, wh, part); err != nil {
						t.Errorf("NOT IDEMPOTENT %s[%d]:\n%v", f.Name(), i, err)
					}
				})
			}
		})
	}
}
