// Copyright Istio Authors
//
// Licensed under the Apache License, Version 2.0 (the "License");
// you may not use this file except in compliance with the License.
// You may obtain a copy of the License at
//
//     http://www.apache.org/licenses/LICENSE-2.0
//
// Unless required by applicable law or agreed to in writing, software
// distributed under the License is distributed on an "AS IS" BASIS,
// WITHOUT WARRANTIES OR CONDITIONS OF ANY KIND, either express or implied.
// See the License for the specific language governing permissions and
// limitations under the License.

package endpoints_test

import (
	"fmt"
	"sort"
	"strings"
	"testing"
	"time"

	endpoint "github.com/envoyproxy/go-control-plane/envoy/config/endpoint/v3"
	"google.golang.org/protobuf/proto"

	"istio.io/istio/pilot/pkg/model"
	pilotxds "istio.io/istio/pilot/pkg/xds"
	"istio.io/istio/pilot/test/xds"
	"istio.io/istio/pkg/config/protocol"
	"istio.io/istio/pkg/util/sets"
)

// TestC06S3EdsProxyLabelsCache is the EDS twin of the CDS suspect S3: the same under-approximated
// EndpointBuilder.failoverPriorityLabels key component also guards the EDS cache.
// Service with trafficDistribution PreferSameNode (failover priority includes kubernetes.io/hostname, failover forced,
// no DestinationRule needed); two sidecars in the same locality/network on different nodes.
func TestC06S3EdsProxyLabelsCache(t *testing.T) {
	const cn = "outbound|80||example.ns.svc.cluster.local"
	ds := xds.NewFakeDiscoveryServer(t, xds.FakeOptions{
		Services: []*model.Service{{
			Hostname: "example.ns.svc.cluster.local",
			Attributes: model.ServiceAttributes{
				Name: "example", Namespace: "ns",
				K8sAttributes: model.K8sAttributes{TrafficDistribution: model.TrafficDistributionPreferSameNode},
			},
			Ports: model.PortList{{Port: 80, Protocol: protocol.HTTP, Name: "http"}},
		}},
	})
	newGen := func(cache model.XdsCache) *pilotxds.EdsGenerator {
		shards := model.NewEndpointIndex(cache)
		svc, _ := shards.GetOrCreateEndpointShard("example.ns.svc.cluster.local", "ns")
		svc.Lock()
		mkEp := func(ip, node string) *model.IstioEndpoint {
			return &model.IstioEndpoint{
				Addresses: []string{ip}, ServicePortName: "http", Namespace: "ns",
				HostName: "example.ns.svc.cluster.local", EndpointPort: 8080,
				Labels:   map[string]string{"app": "example", "kubernetes.io/hostname": node},
				Locality: model.Locality{Label: "r/z/s", ClusterID: "cluster1"},
			}
		}
		svc.Shards[model.ShardKey{Cluster: "cluster1"}] = []*model.IstioEndpoint{mkEp("10.0.1.1", "node-1"), mkEp("10.0.2.1", "node-2")}
		svc.Unlock()
		return &pilotxds.EdsGenerator{Cache: cache, EndpointIndex: shards}
	}
	generate := func(t *testing.T, gen *pilotxds.EdsGenerator, p *model.Proxy) *endpoint.ClusterLoadAssignment {
		t.Helper()
		res, _, err := gen.Generate(p, &model.WatchedResource{ResourceNames: sets.New(cn)},
			&model.PushRequest{Push: ds.PushContext(), Start: time.Now(), Forced: true})
		if err != nil || len(res) != 1 {
			t.Fatalf("generate: %v (%d resources)", err, len(res))
		}
		cla := &endpoint.ClusterLoadAssignment{}
		if err := res[0].Resource.UnmarshalTo(cla); err != nil {
			t.Fatal(err)
		}
		return cla
	}
	prio := func(cla *endpoint.ClusterLoadAssignment) string {
		var out []string
		for _, l := range cla.GetEndpoints() {
			for _, e := range l.GetLbEndpoints() {
				out = append(out, fmt.Sprintf("%s=p%d", e.GetEndpoint().GetAddress().GetSocketAddress().GetAddress(), l.GetPriority()))
			}
		}
		sort.Strings(out)
		return strings.Join(out, " ")
	}
	mk := func(id, node string) func() *model.Proxy {
		return func() *model.Proxy {
			lbls := map[string]string{"app": "client", "kubernetes.io/hostname": node}
			return ds.SetupProxy(&model.Proxy{
				ID: id, IPAddresses: []string{"10.0.0.1"}, Labels: lbls,
				Metadata: &model.NodeMetadata{Labels: lbls, ClusterID: "cluster1"},
			})
		}
	}
	a, b := mk("a.ns", "node-1"), mk("b.ns", "node-2")
	wantA, wantB := generate(t, newGen(model.DisabledCache{}), a()), generate(t, newGen(model.DisabledCache{}), b())
	t.Logf("fresh for A(node-1): %s", prio(wantA))
	t.Logf("fresh for B(node-2): %s", prio(wantB))
	if proto.Equal(wantA, wantB) {
		t.Fatalf("precondition failed: proxy labels do not influence EDS here")
	}
	gen := newGen(model.NewXdsCache())
	_ = generate(t, gen, a())
	gotB := generate(t, gen, b())
	if !proto.Equal(gotB, wantB) {
		t.Errorf("B served after A warmed the shared EDS cache differs from fresh generation:\n got: %s\nwant: %s", prio(gotB), prio(wantB))
	}
}
