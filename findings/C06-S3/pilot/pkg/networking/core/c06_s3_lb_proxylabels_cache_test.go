// Copyright Istio Authors
//
// Licensed under the Apache License, Version 2.0 (the "License");
// you may not use this file except in compliance with the License.
// You may obtain a copy of the License at
//
//     http://www.apache.org/licenses/LICENSE-2.0
//
// Unless required by applicable law or agreed to in writing, software
// distributed under the License is distributed on an "AS IS" BASIS,
// WITHOUT WARRANTIES OR CONDITIONS OF ANY KIND, either express or implied.
// See the License for the specific language governing permissions and
// limitations under the License.

package core

import (
	"fmt"
	"sort"
	"strings"
	"testing"
	"time"

	cluster "github.com/envoyproxy/go-control-plane/envoy/config/cluster/v3"
	"google.golang.org/protobuf/proto"
	"google.golang.org/protobuf/types/known/durationpb"
	"google.golang.org/protobuf/types/known/wrapperspb"

	meshconfig "istio.io/api/mesh/v1alpha1"
	networking "istio.io/api/networking/v1alpha3"
	"istio.io/istio/pilot/pkg/model"
	"istio.io/istio/pkg/config/mesh"
)

const c06S3Cluster = "outbound|80||lb.example.com"

// A DNS ServiceEntry: its endpoints are shipped inline in the CDS cluster (cluster.load_assignment), so the
// locality / failover-priority load balancer is applied to the *cached* CDS resource using the proxy's labels.
const c06S3ServiceEntry = `
apiVersion: networking.istio.io/v1
kind: ServiceEntry
metadata:
  name: dns-se
  namespace: default
%s
spec:
  hosts:
  - lb.example.com
  location: MESH_EXTERNAL
  resolution: DNS
  ports:
  - number: 80
    name: http
    protocol: HTTP
  endpoints:
  - address: a.lb.example.com
    labels:
      version: v1
      kubernetes.io/hostname: node-1
  - address: b.lb.example.com
    labels:
      version: v2
      kubernetes.io/hostname: node-2
`

const c06S3DRTemplate = `
---
apiVersion: networking.istio.io/v1
kind: DestinationRule
metadata:
  name: dns-se
  namespace: default
spec:
  host: lb.example.com
  trafficPolicy:
%s
`

func c06S3Clusters(t *testing.T, cg *ConfigGenTest, cache model.XdsCache, p *model.Proxy) map[string]*cluster.Cluster {
	t.Helper()
	gen := NewConfigGenerator(cache)
	raw, _ := gen.BuildClusters(p, &model.PushRequest{Push: cg.PushContext(), Start: time.Now(), Forced: true})
	out := map[string]*cluster.Cluster{}
	for _, r := range raw {
		c := &cluster.Cluster{}
		if err := r.Resource.UnmarshalTo(c); err != nil {
			t.Fatal(err)
		}
		out[c.Name] = c
	}
	return out
}

// c06S3Priorities renders "address=priority" for every endpoint in the inline load assignment.
func c06S3Priorities(c *cluster.Cluster) string {
	var out []string
	for _, l := range c.GetLoadAssignment().GetEndpoints() {
		for _, e := range l.GetLbEndpoints() {
			out = append(out, fmt.Sprintf("%s=p%d", e.GetEndpoint().GetAddress().GetSocketAddress().GetAddress(), l.GetPriority()))
		}
	}
	sort.Strings(out)
	return strings.Join(out, " ")
}

func TestC06S3LoadBalancerProxyAttributesCache(t *testing.T) {
	outlier := &networking.OutlierDetection{
		Consecutive_5XxErrors: wrapperspb.UInt32(5),
		Interval:              durationpb.New(10 * time.Second),
	}
	meshWith := func(f func(m *meshconfig.MeshConfig)) *meshconfig.MeshConfig {
		m := mesh.DefaultMeshConfig()
		f(m)
		return m
	}

	type tc struct {
		name string
		// true: labels are expected to be covered by the key already (control case, must pass)
		control      bool
		seAnnotation string
		drPolicy     string
		mesh         *meshconfig.MeshConfig
	}
	cases := []tc{
		{
			name:    "control: DR localityLbSetting.failoverPriority + DR outlierDetection (labels hashed via EndpointBuilder)",
			control: true,
			drPolicy: `
    outlierDetection:
      consecutive5xxErrors: 5
    loadBalancer:
      localityLbSetting:
        failoverPriority: [version]`,
		},
		{
			name: "DR zoneAwareLbSetting.failoverPriority, no outlierDetection",
			drPolicy: `
    loadBalancer:
      zoneAwareLbSetting:
        failoverPriority: [version]`,
		},
		{
			name: "mesh zoneAwareLbSetting.failoverPriority, no DestinationRule",
			mesh: meshWith(func(m *meshconfig.MeshConfig) {
				m.ZoneAwareLbSetting = &networking.ZoneAwareLoadBalancerSetting{FailoverPriority: []string{"version"}}
			}),
		},
		{
			name: "mesh defaultTrafficPolicy.outlierDetection + DR localityLbSetting.failoverPriority without outlierDetection",
			mesh: meshWith(func(m *meshconfig.MeshConfig) {
				m.DefaultTrafficPolicy = &meshconfig.MeshConfig_DefaultTrafficPolicy{OutlierDetection: outlier}
			}),
			drPolicy: `
    loadBalancer:
      localityLbSetting:
        failoverPriority: [version]`,
		},
		{
			name: "mesh defaultTrafficPolicy.outlierDetection + mesh localityLbSetting.failoverPriority, no DestinationRule",
			mesh: meshWith(func(m *meshconfig.MeshConfig) {
				m.DefaultTrafficPolicy = &meshconfig.MeshConfig_DefaultTrafficPolicy{OutlierDetection: outlier}
				m.LocalityLbSetting = &networking.LocalityLoadBalancerSetting{FailoverPriority: []string{"version"}}
			}),
		},
		{
			name: "ServiceEntry traffic-distribution PreferSameNode (kubernetes.io/hostname label), default mesh, no DestinationRule",
			seAnnotation: `  annotations:
    networking.istio.io/traffic-distribution: PreferSameNode`,
		},
	}

	for _, tt := range cases {
		t.Run(tt.name, func(t *testing.T) {
			cfg := fmt.Sprintf(c06S3ServiceEntry, tt.seAnnotation)
			if tt.drPolicy != "" {
				cfg += fmt.Sprintf(c06S3DRTemplate, tt.drPolicy)
			}
			cg := NewConfigGenTest(t, TestOptions{ConfigString: cfg, MeshConfig: tt.mesh})
			// Two sidecars of the same namespace / locality / cluster / network / version. They differ only in their
			// workload labels (and, trivially, in their ID).
			mk := func(id, version, node string) func() *model.Proxy {
				return func() *model.Proxy {
					lbls := map[string]string{"app": "client", "version": version, "kubernetes.io/hostname": node}
					return cg.SetupProxy(&model.Proxy{
						ID:          id,
						IPAddresses: []string{"10.0.0.1"},
						Labels:      lbls,
						Metadata:    &model.NodeMetadata{Labels: lbls},
					})
				}
			}
			proxyA, proxyB := mk("a.default", "v1", "node-1"), mk("b.default", "v2", "node-2")

			wantA := c06S3Clusters(t, cg, model.DisabledCache{}, proxyA())[c06S3Cluster]
			wantB := c06S3Clusters(t, cg, model.DisabledCache{}, proxyB())[c06S3Cluster]
			if wantA == nil || wantB == nil {
				t.Fatalf("cluster %s not generated", c06S3Cluster)
			}
			t.Logf("fresh for A(version=v1,node-1): %s", c06S3Priorities(wantA))
			t.Logf("fresh for B(version=v2,node-2): %s", c06S3Priorities(wantB))
			if proto.Equal(wantA, wantB) {
				t.Fatalf("precondition failed: proxy labels do not influence the cluster in this configuration")
			}

			cache := model.NewXdsCache()
			_ = c06S3Clusters(t, cg, cache, proxyA()) // A warms the shared cache
			gotB := c06S3Clusters(t, cg, cache, proxyB())[c06S3Cluster]
			if !proto.Equal(gotB, wantB) {
				t.Errorf("B served after A warmed the cache differs from fresh generation for B:\n got: %s\nwant: %s",
					c06S3Priorities(gotB), c06S3Priorities(wantB))
			} else if !tt.control {
				t.Logf("B got the correct cluster")
			}
		})
	}
}

// TestC06S3SelfDiscoveryAndProxyIDDoNotInfluenceCluster documents the refuted half of the suspect: proxyID and
// metadata.EnableSelfDiscovery are passed into applyLoadBalancer but are only used in a log message.
func TestC06S3SelfDiscoveryAndProxyIDDoNotInfluenceCluster(t *testing.T) {
	cfg := fmt.Sprintf(c06S3ServiceEntry, "") + fmt.Sprintf(c06S3DRTemplate, `
    outlierDetection:
      consecutive5xxErrors: 5
    loadBalancer:
      zoneAwareLbSetting:
        failoverPriority: [version]`) + `
---
apiVersion: networking.istio.io/v1
kind: ServiceEntry
metadata:
  name: static-se
  namespace: default
spec:
  hosts:
  - static.example.com
  location: MESH_EXTERNAL
  resolution: STATIC
  ports:
  - number: 80
    name: http
    protocol: HTTP
  endpoints:
  - address: 9.9.9.9
---
apiVersion: networking.istio.io/v1
kind: DestinationRule
metadata:
  name: static-se
  namespace: default
spec:
  host: static.example.com
  trafficPolicy:
    loadBalancer:
      zoneAwareLbSetting:
        minClusterSize: 3
`
	cg := NewConfigGenTest(t, TestOptions{ConfigString: cfg})
	lbls := map[string]string{"app": "client", "version": "v1"}
	a := cg.SetupProxy(&model.Proxy{
		ID: "a.default", IPAddresses: []string{"10.0.0.1"}, Labels: lbls,
		Metadata: &model.NodeMetadata{Labels: lbls, EnableSelfDiscovery: true},
	})
	b := cg.SetupProxy(&model.Proxy{
		ID: "some-other-id.default", IPAddresses: []string{"10.0.0.1"}, Labels: lbls,
		Metadata: &model.NodeMetadata{Labels: lbls, EnableSelfDiscovery: false},
	})
	ca := c06S3Clusters(t, cg, model.DisabledCache{}, a)
	cb := c06S3Clusters(t, cg, model.DisabledCache{}, b)
	for _, n := range []string{c06S3Cluster, "outbound|80||static.example.com"} {
		if ca[n] == nil || cb[n] == nil {
			t.Fatalf("cluster %s not generated", n)
		}
		if ca[n].GetCommonLbConfig().GetZoneAwareLbConfig() == nil {
			t.Fatalf("%s: expected zone aware lb config (the code path that receives proxyID/enableSelfDiscovery)", n)
		}
		if !proto.Equal(ca[n], cb[n]) {
			t.Errorf("%s differs between proxies that differ only in ID and EnableSelfDiscovery", n)
		}
	}
}
