// Copyright Istio Authors
//
// Licensed under the Apache License, Version 2.0 (the "License");
// you may not use this file except in compliance with the License.
// You may obtain a copy of the License at
//
//     http://www.apache.org/licenses/LICENSE-2.0
//
// Unless required by applicable law or agreed to in writing, software
// distributed under the License is distributed on an "AS IS" BASIS,
// WITHOUT WARRANTIES OR CONDITIONS OF ANY KIND, either express or implied.
// See the License for the specific language governing permissions and
// limitations under the License.

package model

import (
	"testing"

	networking "istio.io/api/networking/v1alpha3"
	"istio.io/istio/pilot/pkg/features"
	"istio.io/istio/pilot/pkg/serviceregistry/provider"
	"istio.io/istio/pkg/config"
	"istio.io/istio/pkg/config/host"
	"istio.io/istio/pkg/config/mesh"
	"istio.io/istio/pkg/config/mesh/meshwatcher"
	"istio.io/istio/pkg/config/schema/gvk"
	"istio.io/istio/pkg/config/visibility"
	"istio.io/istio/pkg/kube"
	"istio.io/istio/pkg/kube/krt"
	"istio.io/istio/pkg/test"
	"istio.io/istio/pkg/util/sets"
)

// TestSidecarScopeVSDestinationHonoursExportToInOwnNamespace checks that a service which is NOT exported to the
// proxy's namespace does not enter the SidecarScope merely because an imported VirtualService routes to it.
//
// collectImportedServices infers additional services from the destinations of the imported VirtualServices by
// looking them up in ps.ServiceIndex.HostnameAndNamespace, an index that holds every service regardless of
// exportTo. Services found in *another* namespace are filtered through IsServiceVisible
// (pickFirstVisibleNamespace/pickBestVisibleNamespace). A service found in the proxy's *own* config namespace
// must be filtered the same way: living in the same namespace does not imply visibility (exportTo: ["~"], or
// exportTo: ["some-other-ns"]).
func TestSidecarScopeVSDestinationHonoursExportToInOwnNamespace(t *testing.T) {
	const proxyNS = "app"
	const otherNS = "other"

	httpPort := PortList{{Name: "http", Port: 80, Protocol: "HTTP"}}
	svc := func(hostname, ns string, registry provider.ID, exportTo ...visibility.Instance) *Service {
		s := &Service{
			Hostname: host.Name(hostname),
			Ports:    httpPort,
			Attributes: ServiceAttributes{
				Name:            hostname,
				Namespace:       ns,
				ServiceRegistry: registry,
			},
		}
		if len(exportTo) > 0 {
			s.Attributes.ExportTo = sets.New(exportTo...)
		}
		return s
	}

	// The VirtualService lives in the proxy's namespace, is attached to the (visible) frontend host and routes to
	// every "hidden" host used by the cases below.
	vs := config.Config{
		Meta: config.Meta{
			GroupVersionKind: gvk.VirtualService,
			Name:             "frontend",
			Namespace:        proxyNS,
		},
		Spec: &networking.VirtualService{
			Hosts: []string{"frontend.example.com"},
			Http: []*networking.HTTPRoute{
				{
					Match: []*networking.HTTPMatchRequest{{Uri: &networking.StringMatch{MatchType: &networking.StringMatch_Prefix{Prefix: "/hidden"}}}},
					Route: []*networking.HTTPRouteDestination{{Destination: &networking.Destination{Host: "hidden.example.com"}}},
				},
				{
					Route: []*networking.HTTPRouteDestination{{Destination: &networking.Destination{Host: "frontend.example.com"}}},
				},
			},
		},
	}

	restrictiveSidecar := &config.Config{
		Meta: config.Meta{
			GroupVersionKind: gvk.Sidecar,
			Name:             "restrictive",
			Namespace:        proxyNS,
		},
		Spec: &networking.Sidecar{
			Egress: []*networking.IstioEgressListener{
				{Hosts: []string{"./frontend.example.com"}},
			},
		},
	}

	frontend := svc("frontend.example.com", proxyNS, provider.External)

	tests := []struct {
		name    string
		sidecar *config.Config
		hidden  *Service
		// sanity: what IsServiceVisible says about `hidden` from the proxy namespace
		wantVisible bool
	}{
		// ---- suspect: host lives in the proxy's OWN namespace but is not exported to it ----
		{
			name:    "own namespace, exportTo ~ (ServiceEntry), restrictive Sidecar",
			sidecar: restrictiveSidecar,
			hidden:  svc("hidden.example.com", proxyNS, provider.External, visibility.None),
		},
		{
			name:    "own namespace, exportTo ~ (ServiceEntry), default sidecar scope",
			sidecar: nil,
			hidden:  svc("hidden.example.com", proxyNS, provider.External, visibility.None),
		},
		{
			name:    "own namespace, exportTo only another namespace (ServiceEntry), restrictive Sidecar",
			sidecar: restrictiveSidecar,
			hidden:  svc("hidden.example.com", proxyNS, provider.External, visibility.Instance(otherNS)),
		},
		{
			name:    "own namespace, exportTo only another namespace (k8s Service annotation), restrictive Sidecar",
			sidecar: restrictiveSidecar,
			hidden:  svc("hidden.example.com", proxyNS, provider.Kubernetes, visibility.Instance(otherNS)),
		},
		{
			name:    "own namespace, exportTo only another namespace, default sidecar scope",
			sidecar: nil,
			hidden:  svc("hidden.example.com", proxyNS, provider.External, visibility.Instance(otherNS)),
		},
		// ---- control: identical setup, host lives in ANOTHER namespace and is not exported to the proxy's ----
		{
			name:    "CONTROL other namespace, exportTo ~, restrictive Sidecar",
			sidecar: restrictiveSidecar,
			hidden:  svc("hidden.example.com", otherNS, provider.External, visibility.None),
		},
		{
			name:    "CONTROL other namespace, exportTo ., restrictive Sidecar",
			sidecar: restrictiveSidecar,
			hidden:  svc("hidden.example.com", otherNS, provider.External, visibility.Private),
		},
		{
			name:    "CONTROL other namespace, exportTo ., default sidecar scope",
			sidecar: nil,
			hidden:  svc("hidden.example.com", otherNS, provider.External, visibility.Private),
		},
		// ---- positive control: the inference itself works for a service that IS exported ----
		{
			name:        "POSITIVE own namespace, exportTo ., restrictive Sidecar",
			sidecar:     restrictiveSidecar,
			hidden:      svc("hidden.example.com", proxyNS, provider.External, visibility.Private),
			wantVisible: true,
		},
		{
			name:        "POSITIVE other namespace, exportTo proxy namespace, restrictive Sidecar",
			sidecar:     restrictiveSidecar,
			hidden:      svc("hidden.example.com", otherNS, provider.External, visibility.Instance(proxyNS)),
			wantVisible: true,
		},
	}

	for _, tt := range tests {
		t.Run(tt.name, func(t *testing.T) {
			ps := NewPushContext()
			env := NewEnvironment()
			env.Watcher = meshwatcher.NewTestWatcher(mesh.DefaultMeshConfig())
			ps.Mesh = env.Mesh()

			env.ServiceDiscovery = &localServiceDiscovery{services: []*Service{frontend, tt.hidden}}
			ps.initDefaultExportMaps()
			ps.initServiceRegistry(env, nil)

			fakeStore := NewFakeStore()
			var controller ConfigStoreController = fakeStore
			if _, err := controller.Create(vs); err != nil {
				t.Fatalf("could not create %v: %v", vs.Name, err)
			}
			env.VirtualServiceController = NewVirtualServiceController(
				controller,
				VSControllerOptions{KrtDebugger: krt.GlobalDebugHandler},
				env.Watcher,
			)
			stop := test.NewStop(t)
			go controller.Run(stop)
			go env.VirtualServiceController.Run(stop)
			kube.WaitForCacheSync("test", stop, controller.HasSynced)
			kube.WaitForCacheSync("test", stop, env.VirtualServiceController.HasSynced)
			env.ConfigStore = controller
			ps.initVirtualServices(env)

			// Sanity: the authoritative visibility predicate and the exported-services view agree with the test's intent.
			if got := ps.IsServiceVisible(tt.hidden, proxyNS); got != tt.wantVisible {
				t.Fatalf("test setup: IsServiceVisible(%s/%s, %q) = %v, want %v",
					tt.hidden.Attributes.Namespace, tt.hidden.Hostname, proxyNS, got, tt.wantVisible)
			}
			inExported := false
			for _, s := range ps.servicesExportedToNamespace(proxyNS) {
				if s.Hostname == tt.hidden.Hostname {
					inExported = true
				}
			}
			if inExported != tt.wantVisible {
				t.Fatalf("test setup: servicesExportedToNamespace(%q) contains hidden=%v, want %v", proxyNS, inExported, tt.wantVisible)
			}

			sc := convertToSidecarScope(ps, tt.sidecar, proxyNS)
			if features.EnableLazySidecarEvaluation {
				sc.initFunc()
			}

			// Sanity: the VirtualService really was imported by the egress listener and the frontend is there.
			imported := 0
			for _, el := range sc.EgressListeners {
				imported += len(el.VirtualServices())
			}
			if imported != 1 {
				t.Fatalf("expected the frontend VirtualService to be imported exactly once, got %d", imported)
			}
			if sc.GetService("frontend.example.com") == nil {
				t.Fatalf("frontend.example.com missing from scope; services: %v", hostnames(sc.Services()))
			}

			got := sc.GetService(tt.hidden.Hostname) != nil
			if got != tt.wantVisible {
				t.Errorf("service %s/%s (exportTo=%v) in SidecarScope of namespace %q: got present=%v, want present=%v; scope services: %v",
					tt.hidden.Attributes.Namespace, tt.hidden.Hostname, sets.SortedList(tt.hidden.Attributes.ExportTo),
					proxyNS, got, tt.wantVisible, hostnames(sc.Services()))
			}
		})
	}
}

func hostnames(svcs []*Service) []string {
	out := make([]string, 0, len(svcs))
	for _, s := range svcs {
		out = append(out, s.Attributes.Namespace+"/"+string(s.Hostname))
	}
	return out
}
