// Copyright Istio Authors
//
// Licensed under the Apache License, Version 2.0 (the "License");
// you may not use this file except in compliance with the License.
// You may obtain a copy of the License at
//
//     http://www.apache.org/licenses/LICENSE-2.0
//
// Unless required by applicable law or agreed to in writing, software
// distributed under the License is distributed on an "AS IS" BASIS,
// WITHOUT WARRANTIES OR CONDITIONS OF ANY KIND, either express or implied.
// See the License for the specific language governing permissions and
// limitations under the License.

package xds_test

import (
	"fmt"
	"sort"
	"strings"
	"testing"

	cluster "github.com/envoyproxy/go-control-plane/envoy/config/cluster/v3"
	endpoint "github.com/envoyproxy/go-control-plane/envoy/config/endpoint/v3"
	discovery "github.com/envoyproxy/go-control-plane/envoy/service/discovery/v3"

	"istio.io/istio/pilot/pkg/model"
	v3 "istio.io/istio/pilot/pkg/xds/v3"
	"istio.io/istio/pilot/test/xds"
	"istio.io/istio/pilot/test/xdstest"
	"istio.io/istio/pkg/config/host"
)

// End-to-end check (real ServiceEntry/K8s Service conversion, real PushContext, real CDS/EDS generators and a real
// ADS stream) that a service which is not exported to the proxy's namespace is withheld from the proxy even when a
// VirtualService imported by the proxy's egress listener routes to it.
//
// Layout (proxy lives in namespace "app"):
//
//	app/frontend.example.com      ServiceEntry, default export (public)  -> the only host the Sidecar selects
//	app/hidden-none.example.com   ServiceEntry, exportTo: ["~"]          -> SUSPECT (own namespace, exported to nobody)
//	app/hidden-other.example.com  ServiceEntry, exportTo: ["other"]      -> SUSPECT (own namespace, exported elsewhere only)
//	app/hidden-kube               K8s Service, annotation exportTo=other -> SUSPECT (own namespace, exported elsewhere only)
//	other/ctl-none.example.com    ServiceEntry, exportTo: ["~"]          -> CONTROL (other namespace)
//	other/ctl-private.example.com ServiceEntry, exportTo: ["."]          -> CONTROL (other namespace)
//	other/shared.example.com      ServiceEntry, exportTo: ["app"]        -> POSITIVE control (is exported to app)
//	app/frontend VirtualService   hosts: frontend.example.com, routes to every host above
//	app/default  Sidecar          egress hosts: ["./frontend.example.com"] (only in the "restrictive sidecar" variant)
const exportToOwnNamespaceConfig = `
apiVersion: networking.istio.io/v1
kind: ServiceEntry
metadata:
  name: frontend
  namespace: app
spec:
  hosts: [frontend.example.com]
  ports:
  - {number: 80, name: http, protocol: HTTP}
  resolution: STATIC
  endpoints:
  - address: 10.10.0.1
---
apiVersion: networking.istio.io/v1
kind: ServiceEntry
metadata:
  name: hidden-none
  namespace: app
spec:
  hosts: [hidden-none.example.com]
  exportTo: ["~"]
  ports:
  - {number: 80, name: http, protocol: HTTP}
  resolution: STATIC
  endpoints:
  - address: 10.10.0.2
---
apiVersion: networking.istio.io/v1
kind: ServiceEntry
metadata:
  name: hidden-other
  namespace: app
spec:
  hosts: [hidden-other.example.com]
  exportTo: ["other"]
  ports:
  - {number: 80, name: http, protocol: HTTP}
  resolution: STATIC
  endpoints:
  - address: 10.10.0.3
---
apiVersion: networking.istio.io/v1
kind: ServiceEntry
metadata:
  name: ctl-none
  namespace: other
spec:
  hosts: [ctl-none.example.com]
  exportTo: ["~"]
  ports:
  - {number: 80, name: http, protocol: HTTP}
  resolution: STATIC
  endpoints:
  - address: 10.10.0.4
---
apiVersion: networking.istio.io/v1
kind: ServiceEntry
metadata:
  name: ctl-private
  namespace: other
spec:
  hosts: [ctl-private.example.com]
  exportTo: ["."]
  ports:
  - {number: 80, name: http, protocol: HTTP}
  resolution: STATIC
  endpoints:
  - address: 10.10.0.5
---
apiVersion: networking.istio.io/v1
kind: ServiceEntry
metadata:
  name: shared
  namespace: other
spec:
  hosts: [shared.example.com]
  exportTo: ["app"]
  ports:
  - {number: 80, name: http, protocol: HTTP}
  resolution: STATIC
  endpoints:
  - address: 10.10.0.6
---
apiVersion: networking.istio.io/v1
kind: VirtualService
metadata:
  name: frontend
  namespace: app
spec:
  hosts: [frontend.example.com]
  http:
  - match: [{uri: {prefix: /hidden-none}}]
    route: [{destination: {host: hidden-none.example.com}}]
  - match: [{uri: {prefix: /hidden-other}}]
    route: [{destination: {host: hidden-other.example.com}}]
  - match: [{uri: {prefix: /hidden-kube}}]
    route: [{destination: {host: hidden-kube.app.svc.cluster.local}}]
  - match: [{uri: {prefix: /ctl-none}}]
    route: [{destination: {host: ctl-none.example.com}}]
  - match: [{uri: {prefix: /ctl-private}}]
    route: [{destination: {host: ctl-private.example.com}}]
  - match: [{uri: {prefix: /shared}}]
    route: [{destination: {host: shared.example.com}}]
  - route: [{destination: {host: frontend.example.com}}]
`

const exportToOwnNamespaceSidecar = `
---
apiVersion: networking.istio.io/v1
kind: Sidecar
metadata:
  name: default
  namespace: app
spec:
  egress:
  - hosts: ["./frontend.example.com"]
`

const exportToOwnNamespaceKube = `
apiVersion: v1
kind: Service
metadata:
  name: hidden-kube
  namespace: app
  annotations:
    networking.istio.io/exportTo: "other"
spec:
  clusterIP: 10.20.0.1
  ports:
  - {name: http, port: 80, protocol: TCP}
`

func TestSidecarVSDestinationHonoursExportToInOwnNamespace(t *testing.T) {
	const proxyNS = "app"

	type expectation struct {
		hostname string
		// namespace the service lives in
		namespace string
		// whether the service is exported to the proxy's namespace, i.e. whether the proxy may receive it
		exported bool
		// label used in the failure message
		role string
	}
	expectations := []expectation{
		{"frontend.example.com", "app", true, "selected by Sidecar"},
		{"shared.example.com", "other", true, "POSITIVE control: other namespace, exportTo [app]"},
		{"ctl-none.example.com", "other", false, "CONTROL: other namespace, exportTo [~]"},
		{"ctl-private.example.com", "other", false, "CONTROL: other namespace, exportTo [.]"},
		{"hidden-none.example.com", "app", false, "SUSPECT: own namespace, ServiceEntry exportTo [~]"},
		{"hidden-other.example.com", "app", false, "SUSPECT: own namespace, ServiceEntry exportTo [other]"},
		{"hidden-kube.app.svc.cluster.local", "app", false, "SUSPECT: own namespace, k8s Service annotation exportTo=other"},
	}

	for _, variant := range []struct {
		name   string
		config string
	}{
		{"restrictive Sidecar", exportToOwnNamespaceConfig + exportToOwnNamespaceSidecar},
		{"no Sidecar (default scope)", exportToOwnNamespaceConfig},
	} {
		t.Run(variant.name, func(t *testing.T) {
			s := xds.NewFakeDiscoveryServer(t, xds.FakeOptions{
				ConfigString:           variant.config,
				KubernetesObjectString: exportToOwnNamespaceKube,
			})
			push := s.PushContext()

			// Sanity: nothing upstream (validation, ServiceEntry/k8s conversion, initServiceRegistry) drops the services; every
			// one of them is in the raw index, and IsServiceVisible/servicesExportedToNamespace classify them as the test assumes.
			for _, e := range expectations {
				svc := push.ServiceIndex.HostnameAndNamespace[host.Name(e.hostname)][e.namespace]
				if svc == nil {
					t.Fatalf("setup: %s/%s not present in ServiceIndex.HostnameAndNamespace", e.namespace, e.hostname)
				}
				if got := push.IsServiceVisible(svc, proxyNS); got != e.exported {
					t.Fatalf("setup: IsServiceVisible(%s/%s, %q) = %v, want %v", e.namespace, e.hostname, proxyNS, got, e.exported)
				}
			}

			proxy := s.SetupProxy(&model.Proxy{
				ID:              "client.app",
				ConfigNamespace: proxyNS,
				IPAddresses:     []string{"10.10.9.9"},
			})

			// 1. SidecarScope.Services()
			inScope := map[string]bool{}
			for _, svc := range proxy.SidecarScope.Services() {
				inScope[string(svc.Hostname)] = true
			}
			// 2. CDS via the real cluster generator
			clusters := s.Clusters(proxy)
			clusterNames := xdstest.MapKeys(xdstest.ExtractClusters(clusters))
			// 3. EDS via the real endpoint builder for every EDS cluster the proxy got
			eds := xdstest.ExtractLoadAssignments(s.Endpoints(proxy))
			// 4. RDS: which clusters do the proxy's routes point at
			routeClusters := map[string]bool{}
			for _, rc := range s.Routes(proxy) {
				for _, vh := range rc.GetVirtualHosts() {
					for _, r := range vh.GetRoutes() {
						if c := r.GetRoute().GetCluster(); c != "" {
							routeClusters[c] = true
						}
					}
				}
			}
			// 5. Same thing over a real ADS stream.
			adsClusters, adsEndpoints := fetchCdsEdsOverADS(t, s, "sidecar~10.10.9.9~client.app~app.svc.cluster.local")

			t.Logf("scope services : %v", sortedKeys(inScope))
			t.Logf("CDS (generator): %v", outboundOnly(clusterNames))
			t.Logf("EDS (generator): %v", eds)
			t.Logf("CDS (ADS)      : %v", outboundOnly(sortedKeys(adsClusters)))
			t.Logf("EDS (ADS)      : %v", adsEndpoints)
			t.Logf("route clusters : %v", outboundOnly(sortedKeys(routeClusters)))

			for _, e := range expectations {
				cn := fmt.Sprintf("outbound|80||%s", e.hostname)
				hasCluster := xdstest.ExtractClusters(clusters)[cn] != nil
				_, hasEds := eds[cn]
				hasEdsEndpoints := len(eds[cn]) > 0
				hasAdsCluster := adsClusters[cn]
				hasAdsEndpoints := len(adsEndpoints[cn]) > 0

				if e.exported {
					if !inScope[e.hostname] || !hasCluster || !hasAdsCluster {
						t.Errorf("[%s] %s/%s should be delivered to a proxy in %q: inScope=%v cds=%v adsCds=%v",
							e.role, e.namespace, e.hostname, proxyNS, inScope[e.hostname], hasCluster, hasAdsCluster)
					}
					continue
				}
				if inScope[e.hostname] {
					t.Errorf("[%s] %s/%s is NOT exported to %q but is in SidecarScope.Services()", e.role, e.namespace, e.hostname, proxyNS)
				}
				if hasCluster || hasAdsCluster {
					t.Errorf("[%s] %s/%s is NOT exported to %q but the proxy received cluster %q (generator=%v, ADS=%v)",
						e.role, e.namespace, e.hostname, proxyNS, cn, hasCluster, hasAdsCluster)
				}
				if hasEds || hasEdsEndpoints || hasAdsEndpoints {
					t.Errorf("[%s] %s/%s is NOT exported to %q but the proxy received endpoints for %q: generator=%v ADS=%v",
						e.role, e.namespace, e.hostname, proxyNS, cn, eds[cn], adsEndpoints[cn])
				}
			}
		})
	}
}

// fetchCdsEdsOverADS connects as a sidecar, requests CDS, then EDS for every EDS cluster returned, and reports
// cluster names and per-cluster endpoint addresses.
func fetchCdsEdsOverADS(t *testing.T, s *xds.FakeDiscoveryServer, nodeID string) (map[string]bool, map[string][]string) {
	t.Helper()
	ads := s.ConnectADS().WithID(nodeID).WithType(v3.ClusterType)
	res := ads.RequestResponseAck(t, nil)
	clusterNames := map[string]bool{}
	var edsNames []string
	for _, r := range res.Resources {
		c := &cluster.Cluster{}
		if err := r.UnmarshalTo(c); err != nil {
			t.Fatal(err)
		}
		clusterNames[c.Name] = true
		if c.GetType() == cluster.Cluster_EDS {
			edsNames = append(edsNames, c.Name)
		}
	}
	sort.Strings(edsNames)

	edsAds := s.ConnectADS().WithID(nodeID).WithType(v3.EndpointType)
	eres := edsAds.RequestResponseAck(t, &discovery.DiscoveryRequest{ResourceNames: edsNames})
	var clas []*endpoint.ClusterLoadAssignment
	for _, r := range eres.Resources {
		cla := &endpoint.ClusterLoadAssignment{}
		if err := r.UnmarshalTo(cla); err != nil {
			t.Fatal(err)
		}
		clas = append(clas, cla)
	}
	return clusterNames, xdstest.ExtractLoadAssignments(clas)
}

func sortedKeys(m map[string]bool) []string {
	out := make([]string, 0, len(m))
	for k := range m {
		out = append(out, k)
	}
	sort.Strings(out)
	return out
}

func outboundOnly(names []string) []string {
	out := []string{}
	for _, n := range names {
		if strings.HasPrefix(n, "outbound|") {
			out = append(out, n)
		}
	}
	sort.Strings(out)
	return out
}
