// Copyright Istio Authors
//
// Licensed under the Apache License, Version 2.0 (the "License");
// you may not use this file except in compliance with the License.
// You may obtain a copy of the License at
//
//     http://www.apache.org/licenses/LICENSE-2.0
//
// Unless required by applicable law or agreed to in writing, software
// distributed under the License is distributed on an "AS IS" BASIS,
// WITHOUT WARRANTIES OR CONDITIONS OF ANY KIND, either express or implied.
// See the License for the specific language governing permissions and
// limitations under the License.

package krt_test

import (
	"fmt"
	"sort"
	"strings"
	"testing"

	"istio.io/istio/pkg/kube/krt"
)

// findK1: an index over a (checked) JoinCollection must agree with the join's own contents:
// index.Lookup(k) == [o for o in join.List() if k in extract(o)].

type findK1Obj struct {
	Name  string
	Label string
	// Src names the collection that holds this copy
	Src string
}

func (o findK1Obj) ResourceName() string { return o.Name }

func findK1Render(l []findK1Obj) string {
	res := make([]string, 0, len(l))
	for _, o := range l {
		res = append(res, fmt.Sprintf("%s(label=%s,from=%s)", o.Name, o.Label, o.Src))
	}
	sort.Strings(res)
	return "[" + strings.Join(res, " ") + "]"
}

func findK1Filtered(l []findK1Obj, label string) []findK1Obj {
	var res []findK1Obj
	for _, o := range l {
		if o.Label == label {
			res = append(res, o)
		}
	}
	return res
}

func TestFindK1JoinIndexAgreesWithList(t *testing.T) {
	cases := []struct {
		name      string
		unchecked bool
		c0, c1    []findK1Obj
	}{
		{
			// control: no key is in both collections
			name: "control disjoint keys",
			c0:   []findK1Obj{{"x", "a", "c0"}, {"y", "b", "c0"}},
			c1:   []findK1Obj{{"z", "a", "c1"}, {"w", "b", "c1"}},
		},
		{
			// control: the unchecked join promises nothing for overlapping keys, so only disjoint keys are used.
			name:      "control unchecked disjoint keys",
			unchecked: true,
			c0:        []findK1Obj{{"x", "a", "c0"}, {"y", "b", "c0"}},
			c1:        []findK1Obj{{"z", "a", "c1"}, {"w", "b", "c1"}},
		},
		{
			// x is in both collections under the same index key: the join contains c0's copy once
			name: "same key same index key",
			c0:   []findK1Obj{{"x", "a", "c0"}},
			c1:   []findK1Obj{{"x", "a", "c1"}, {"z", "a", "c1"}},
		},
		{
			// x is in both collections under different index keys: c1's copy is not part of the join at all
			name: "same key different index key",
			c0:   []findK1Obj{{"x", "a", "c0"}},
			c1:   []findK1Obj{{"x", "b", "c1"}, {"z", "b", "c1"}},
		},
	}
	for _, tt := range cases {
		t.Run(tt.name, func(t *testing.T) {
			opts := testOptions(t)
			c0 := krt.NewStaticCollection[findK1Obj](nil, tt.c0, opts.WithName("c0")...)
			c1 := krt.NewStaticCollection[findK1Obj](nil, tt.c1, opts.WithName("c1")...)
			jopts := opts.WithName("join")
			if tt.unchecked {
				jopts = append(jopts, krt.WithJoinUnchecked())
			}
			j := krt.JoinCollection([]krt.Collection[findK1Obj]{c0, c1}, jopts...)
			if !j.WaitUntilSynced(opts.Stop()) {
				t.Fatal("not synced")
			}
			byLabel := krt.NewIndex(j, "label", func(o findK1Obj) []string { return []string{o.Label} })
			byLabelCollection := byLabel.AsCollection()

			check := func(step string) {
				t.Helper()
				list := j.List()
				t.Logf("%s: List() = %v", step, findK1Render(list))
				for _, label := range []string{"a", "b"} {
					want := findK1Render(findK1Filtered(list, label))
					if got := findK1Render(byLabel.Lookup(label)); got != want {
						t.Errorf("%s: index.Lookup(%s) = %v, List() filtered by the same extractor = %v", step, label, got, want)
					}
					if got := findK1Render(krt.Fetch(krt.TestingDummyContext{}, j, krt.FilterIndex(byLabel, label))); got != want {
						t.Errorf("%s: Fetch(FilterIndex(%s)) = %v, List() filtered by the same extractor = %v", step, label, got, want)
					}
					var got []findK1Obj
					if io := byLabelCollection.GetKey(label); io != nil {
						got = io.Objects
					}
					if got := findK1Render(got); got != want {
						t.Errorf("%s: index.AsCollection().GetKey(%s) = %v, List() filtered by the same extractor = %v", step, label, got, want)
					}
				}
			}
			check("initial")

			// The lower priority collection changes its copy; the join's contents stay as they are for a shadowed key.
			for _, o := range tt.c1 {
				o.Label = "b"
				c1.UpdateObject(o)
			}
			check("after c1 relabels its objects to b")

			// The higher priority copies go away, the lower priority ones take over (where there are any).
			for _, o := range tt.c0 {
				c0.DeleteObject(o.Name)
			}
			check("after c0 deleted its objects")
		})
	}
}
