// Copyright Istio Authors
//
// Licensed under the Apache License, Version 2.0 (the "License");
// you may not use this file except in compliance with the License.
// You may obtain a copy of the License at
//
//     http://www.apache.org/licenses/LICENSE-2.0
//
// Unless required by applicable law or agreed to in writing, software
// distributed under the License is distributed on an "AS IS" BASIS,
// WITHOUT WARRANTIES OR CONDITIONS OF ANY KIND, either express or implied.
// See the License for the specific language governing permissions and
// limitations under the License.

package krt_test

import (
	"fmt"
	"sort"
	"strings"
	"sync"
	"testing"
	"time"

	"istio.io/istio/pkg/kube/controllers"
	"istio.io/istio/pkg/kube/krt"
)

// findK3: a one-to-many collection whose output key MOVES from one parent input to another.
//
// inputs:  findK3Owner{Name, Children}      key = Name
// outputs: one findK3Child per child name   key = child name (so a child can move between owners)

type findK3Owner struct {
	Name     string
	Children []string
}

func (o findK3Owner) ResourceName() string { return o.Name }

func (o findK3Owner) Equals(other findK3Owner) bool {
	return o.Name == other.Name && strings.Join(o.Children, ",") == strings.Join(other.Children, ",")
}

type findK3Child struct {
	Name  string
	Owner string
}

func (c findK3Child) ResourceName() string { return c.Name }

// findK3Recorder records the event stream of one subscriber and checks it against the krt contract while replaying it.
type findK3Recorder struct {
	mu     sync.Mutex
	state  map[string]findK3Child
	log    []string
	faults []string
}

func (r *findK3Recorder) handle(ev krt.Event[findK3Child]) {
	r.mu.Lock()
	defer r.mu.Unlock()
	key := ev.Latest().ResourceName()
	_, known := r.state[key]
	switch ev.Event {
	case controllers.EventAdd:
		r.log = append(r.log, fmt.Sprintf("add/%s=%s", key, ev.New.Owner))
		if known {
			r.faults = append(r.faults, "duplicate add of "+key)
		}
		r.state[key] = *ev.New
	case controllers.EventUpdate:
		r.log = append(r.log, fmt.Sprintf("update/%s=%s", key, ev.New.Owner))
		if !known {
			r.faults = append(r.faults, "update of unknown key "+key)
		}
		r.state[key] = *ev.New
	case controllers.EventDelete:
		r.log = append(r.log, fmt.Sprintf("delete/%s", key))
		if !known {
			r.faults = append(r.faults, "delete of unknown key "+key)
		}
		delete(r.state, key)
	}
}

func (r *findK3Recorder) seen(key string) bool {
	r.mu.Lock()
	defer r.mu.Unlock()
	_, f := r.state[key]
	return f
}

func (r *findK3Recorder) faultList() []string {
	r.mu.Lock()
	defer r.mu.Unlock()
	return append([]string{}, r.faults...)
}

func (r *findK3Recorder) eventLog() []string {
	r.mu.Lock()
	defer r.mu.Unlock()
	return append([]string{}, r.log...)
}

func (r *findK3Recorder) replayed() string {
	r.mu.Lock()
	defer r.mu.Unlock()
	return findK3Render(r.state)
}

func findK3Render(m map[string]findK3Child) string {
	res := make([]string, 0, len(m))
	for k, v := range m {
		res = append(res, k+"="+v.Owner)
	}
	sort.Strings(res)
	return strings.Join(res, " ")
}

func findK3RenderList(l []findK3Child) string {
	m := map[string]findK3Child{}
	for _, c := range l {
		m[c.ResourceName()] = c
	}
	if len(m) != len(l) {
		return fmt.Sprintf("DUPLICATE KEYS IN %v", l)
	}
	return findK3Render(m)
}

// findK3Expected applies the transformation to the current inputs.
func findK3Expected(tf func(findK3Owner) []findK3Child, inputs []findK3Owner) string {
	var all []findK3Child
	for _, i := range inputs {
		all = append(all, tf(i)...)
	}
	return findK3RenderList(all)
}

func TestFindK3KeyMovesBetweenParents(t *testing.T) {
	// ownerInValue=true: the output records its owner, so the move is an update of the output.
	// ownerInValue=false: the output is identical whichever parent produces it, so the move is invisible.
	for _, ownerInValue := range []bool{true, false} {
		// single=true: one input event per change (static.UpdateObject), i.e. consecutive batches.
		// single=false: both inputs change in ONE batch (static.Reset), in the given order.
		for _, single := range []bool{true, false} {
			for _, order := range []struct {
				name  string
				first string // which parent's change is seen first
			}{
				{"control old parent first", "a"},
				{"new parent first", "b"},
			} {
				name := fmt.Sprintf("ownerInValue=%v/consecutiveBatches=%v/%s", ownerInValue, single, order.name)
				t.Run(name, func(t *testing.T) {
					findK3Run(t, ownerInValue, single, order.first)
				})
			}
		}
	}
}

func findK3Run(t *testing.T, ownerInValue bool, single bool, first string) {
	opts := testOptions(t)
	tf := func(o findK3Owner) []findK3Child {
		res := make([]findK3Child, 0, len(o.Children))
		for _, c := range o.Children {
			ch := findK3Child{Name: c}
			if ownerInValue {
				ch.Owner = o.Name
			}
			res = append(res, ch)
		}
		return res
	}

	// Owner "a" produces k (and a private child), owner "b" only a private child.
	// "sentinel" is an unrelated input used to know when all earlier input events were handled.
	a0 := findK3Owner{Name: "a", Children: []string{"a-own", "k"}}
	b0 := findK3Owner{Name: "b", Children: []string{"b-own"}}
	s0 := findK3Owner{Name: "sentinel"}
	inputs := krt.NewStaticCollection[findK3Owner](nil, []findK3Owner{a0, b0, s0}, opts.WithName("owners")...)
	children := krt.NewManyCollection(inputs, func(ctx krt.HandlerContext, o findK3Owner) []findK3Child {
		return tf(o)
	}, opts.WithName("children")...)
	byOwner := krt.NewIndex(children, "owner", func(c findK3Child) []string { return []string{c.Owner} })

	rec := &findK3Recorder{state: map[string]findK3Child{}}
	reg := children.Register(rec.handle)
	if !children.WaitUntilSynced(opts.Stop()) || !reg.WaitUntilSynced(opts.Stop()) {
		t.Fatal("not synced")
	}
	if got, want := findK3RenderList(children.List()), findK3Expected(tf, inputs.List()); got != want {
		t.Fatalf("initial state: got %q want %q", got, want)
	}

	// k moves from a to b.
	a1 := findK3Owner{Name: "a", Children: []string{"a-own"}}
	b1 := findK3Owner{Name: "b", Children: []string{"b-own", "k"}}
	changes := []findK3Owner{a1, b1}
	if first == "b" {
		changes = []findK3Owner{b1, a1}
	}
	if single {
		for _, c := range changes {
			inputs.UpdateObject(c)
		}
	} else {
		// Reset emits ONE batch, with the events in the order of the slice.
		inputs.Reset(append(changes, s0))
	}
	// Flush: the sentinel's event is enqueued after the ones above and the collection handles its inputs in order.
	inputs.UpdateObject(findK3Owner{Name: "sentinel", Children: []string{"flushed"}})
	deadline := time.Now().Add(10 * time.Second)
	for !rec.seen("flushed") {
		if time.Now().After(deadline) {
			t.Fatalf("sentinel never arrived; events: %v", rec.eventLog())
		}
		time.Sleep(time.Millisecond)
	}

	want := findK3Expected(tf, inputs.List())
	t.Logf("inputs now: %v", findK3RenderOwners(inputs.List()))
	t.Logf("events: %v", rec.eventLog())
	if got := findK3RenderList(children.List()); got != want {
		t.Errorf("List() = %q, transformation of the current inputs = %q", got, want)
	}
	if got := children.GetKey("k"); got == nil {
		t.Errorf("GetKey(k) = nil although input b produces k")
	}
	if got := rec.replayed(); got != want {
		t.Errorf("replayed event stream = %q, want %q", got, want)
	}
	for _, f := range rec.faultList() {
		t.Errorf("event stream: %s", f)
	}
	reported := len(rec.faultList())
	if ownerInValue {
		if got, want := findK3RenderList(byOwner.Lookup("b")), "b-own=b k=b"; got != want {
			t.Errorf("index Lookup(b) = %q want %q", got, want)
		}
	}

	// And the collection must keep working afterwards: removing k from b removes it for good.
	inputs.UpdateObject(findK3Owner{Name: "b", Children: []string{"b-own"}})
	inputs.UpdateObject(findK3Owner{Name: "sentinel", Children: []string{"flushed", "flushed2"}})
	for !rec.seen("flushed2") {
		if time.Now().After(deadline) {
			t.Fatalf("sentinel never arrived; events: %v", rec.eventLog())
		}
		time.Sleep(time.Millisecond)
	}
	want = findK3Expected(tf, inputs.List())
	if got := findK3RenderList(children.List()); got != want {
		t.Errorf("after removing k: List() = %q want %q", got, want)
	}
	if got := rec.replayed(); got != want {
		t.Errorf("after removing k: replayed event stream = %q, want %q", got, want)
	}
	for _, f := range rec.faultList()[reported:] {
		t.Errorf("after removing k: event stream: %s", f)
	}
}

func findK3RenderOwners(l []findK3Owner) string {
	res := make([]string, 0, len(l))
	for _, o := range l {
		res = append(res, fmt.Sprintf("%s->%v", o.Name, o.Children))
	}
	sort.Strings(res)
	return strings.Join(res, " ")
}
