// Copyright Istio Authors
//
// Licensed under the Apache License, Version 2.0 (the "License");
// you may not use this file except in compliance with the License.
// You may obtain a copy of the License at
//
//     http://www.apache.org/licenses/LICENSE-2.0
//
// Unless required by applicable law or agreed to in writing, software
// distributed under the License is distributed on an "AS IS" BASIS,
// WITHOUT WARRANTIES OR CONDITIONS OF ANY KIND, either express or implied.
// See the License for the specific language governing permissions and
// limitations under the License.

package krt

import (
	"fmt"
	"sort"
	"strings"
	"sync"
	"testing"
	"time"

	"istio.io/istio/pkg/kube/controllers"
	"istio.io/istio/pkg/test"
)

// findK2: the checked JoinCollection (conflict resolution between collections holding the same key).
//
// The join's per-sub-collection handlers run on their own queue goroutines, so the events of two sub-collections
// can both be "in flight" (sub-collection state already changed, event not yet handled by the join) at once.
// Every such schedule must still give each subscriber a well formed stream.
//
// This is an internal test only so it can hold join.mu for a moment: handleSubCollectionEvents starts by taking
// that mutex, so holding it is exactly "the join's queue goroutines have not been scheduled yet" and nothing else.

type findK2Obj struct {
	Name string
	// Src names the collection this copy comes from
	Src string
}

func (o findK2Obj) ResourceName() string { return o.Name }

type findK2Recorder struct {
	mu     sync.Mutex
	state  map[string]findK2Obj
	log    []string
	faults []string
}

func (r *findK2Recorder) handle(ev Event[findK2Obj]) {
	r.mu.Lock()
	defer r.mu.Unlock()
	key := ev.Latest().ResourceName()
	_, known := r.state[key]
	switch ev.Event {
	case controllers.EventAdd:
		r.log = append(r.log, fmt.Sprintf("add/%s@%s", key, ev.New.Src))
		if known {
			r.faults = append(r.faults, "duplicate add of "+key)
		}
		r.state[key] = *ev.New
	case controllers.EventUpdate:
		r.log = append(r.log, fmt.Sprintf("update/%s@%s", key, ev.New.Src))
		if !known {
			r.faults = append(r.faults, "update of unknown key "+key)
		}
		r.state[key] = *ev.New
	case controllers.EventDelete:
		r.log = append(r.log, fmt.Sprintf("delete/%s", key))
		if !known {
			r.faults = append(r.faults, "delete of unknown key "+key)
		}
		delete(r.state, key)
	}
}

func (r *findK2Recorder) has(key, src string) bool {
	r.mu.Lock()
	defer r.mu.Unlock()
	o, f := r.state[key]
	return f && o.Src == src
}

func (r *findK2Recorder) events() []string {
	r.mu.Lock()
	defer r.mu.Unlock()
	return append([]string{}, r.log...)
}

func (r *findK2Recorder) faultList() []string {
	r.mu.Lock()
	defer r.mu.Unlock()
	return append([]string{}, r.faults...)
}

func (r *findK2Recorder) replayed() string {
	r.mu.Lock()
	defer r.mu.Unlock()
	l := make([]findK2Obj, 0, len(r.state))
	for _, o := range r.state {
		l = append(l, o)
	}
	return findK2Render(l)
}

func findK2Render(l []findK2Obj) string {
	res := make([]string, 0, len(l))
	for _, o := range l {
		// the flush markers are bookkeeping of the test only
		if strings.HasPrefix(o.Name, "flush") {
			continue
		}
		res = append(res, o.Name+"@"+o.Src)
	}
	sort.Strings(res)
	return "[" + strings.Join(res, " ") + "]"
}

func findK2Wait(t *testing.T, what string, f func() bool) {
	t.Helper()
	deadline := time.Now().Add(10 * time.Second)
	for !f() {
		if time.Now().After(deadline) {
			t.Fatalf("timed out waiting for %s", what)
		}
		time.Sleep(time.Millisecond)
	}
}

func TestFindK2CheckedJoinInFlightEvents(t *testing.T) {
	x0 := findK2Obj{Name: "x", Src: "c0"}
	x1 := findK2Obj{Name: "x", Src: "c1"}
	type colls struct{ c0, c1 StaticCollection[findK2Obj] }
	cases := []struct {
		name string
		// established state before the interesting part. It is built up one change at a time (c1 first), each
		// handled by the join and seen by the subscriber before the next, so that it is not itself "in flight".
		init0, init1 []findK2Obj
		// the two changes whose events are in flight at the same time
		steps []func(c colls)
		want  string
	}{
		{
			name: "both collections add the key",
			steps: []func(c colls){
				func(c colls) { c.c1.UpdateObject(x1) },
				func(c colls) { c.c0.UpdateObject(x0) },
			},
			want: "[x@c0]",
		},
		{
			name:  "lower priority adds while higher priority deletes",
			init0: []findK2Obj{x0},
			steps: []func(c colls){
				func(c colls) { c.c1.UpdateObject(x1) },
				func(c colls) { c.c0.DeleteObject("x") },
			},
			want: "[x@c1]",
		},
		{
			name:  "both collections delete the key",
			init0: []findK2Obj{x0},
			init1: []findK2Obj{x1},
			steps: []func(c colls){
				func(c colls) { c.c0.DeleteObject("x") },
				func(c colls) { c.c1.DeleteObject("x") },
			},
			want: "[]",
		},
		{
			name:  "higher priority adds while lower priority deletes",
			init1: []findK2Obj{x1},
			steps: []func(c colls){
				func(c colls) { c.c0.UpdateObject(x0) },
				func(c colls) { c.c1.DeleteObject("x") },
			},
			want: "[x@c0]",
		},
	}
	for _, tt := range cases {
		// inFlight=false is the control: the join handles each change before the next one is made.
		for _, inFlight := range []bool{false, true} {
			name := tt.name + "/events in flight together"
			if !inFlight {
				name = tt.name + "/control one change at a time"
			}
			t.Run(name, func(t *testing.T) {
				stop := test.NewStop(t)
				c := colls{
					c0: NewStaticCollection[findK2Obj](nil, nil, WithStop(stop), WithName("c0")),
					c1: NewStaticCollection[findK2Obj](nil, nil, WithStop(stop), WithName("c1")),
				}
				jc := JoinCollection([]Collection[findK2Obj]{c.c0, c.c1}, WithStop(stop), WithName("join"))
				j := jc.(*join[findK2Obj])
				rec := &findK2Recorder{state: map[string]findK2Obj{}}
				// subscribed from the very start
				reg := jc.Register(rec.handle)
				if !jc.WaitUntilSynced(stop) || !reg.WaitUntilSynced(stop) {
					t.Fatal("not synced")
				}
				flushes := 0
				// flush waits until everything the sub-collections emitted so far went through the join to the subscriber:
				// every hop is FIFO, so a marker object per sub-collection arriving means all earlier events arrived.
				flush := func() {
					flushes++
					k0, k1 := fmt.Sprintf("flush%d-c0", flushes), fmt.Sprintf("flush%d-c1", flushes)
					c.c0.UpdateObject(findK2Obj{Name: k0, Src: "c0"})
					c.c1.UpdateObject(findK2Obj{Name: k1, Src: "c1"})
					findK2Wait(t, "flush markers", func() bool { return rec.has(k0, "c0") && rec.has(k1, "c1") })
				}
				for _, o := range tt.init1 {
					c.c1.UpdateObject(o)
					flush()
				}
				for _, o := range tt.init0 {
					c.c0.UpdateObject(o)
					flush()
				}
				flush()
				established := findK2Render(jc.List())
				if got := rec.replayed(); got != established || len(rec.faultList()) > 0 {
					t.Fatalf("before the interesting part: replayed %v, List %v, faults %v", got, established, rec.faultList())
				}
				before := len(rec.events())

				if inFlight {
					// The join's queue goroutines do not get to run until both sub-collections have changed.
					j.mu.Lock()
				}
				for _, step := range tt.steps {
					step(c)
					if !inFlight {
						flush()
					}
				}
				if inFlight {
					j.mu.Unlock()
				}
				flush()

				var evs []string
				for _, e := range rec.events()[before:] {
					if !strings.Contains(e, "flush") {
						evs = append(evs, e)
					}
				}
				t.Logf("established %v; events since: %v", established, evs)
				if got := findK2Render(jc.List()); got != tt.want {
					t.Errorf("List() = %v want %v", got, tt.want)
				}
				if got := rec.replayed(); got != tt.want {
					t.Errorf("replayed event stream = %v want %v", got, tt.want)
				}
				for _, f := range rec.faultList() {
					t.Errorf("event stream: %s", f)
				}

				// A handler registered late gets the contents as adds, once.
				late := &findK2Recorder{state: map[string]findK2Obj{}}
				lreg := jc.Register(late.handle)
				if !lreg.WaitUntilSynced(stop) {
					t.Fatal("late handler not synced")
				}
				if got := late.replayed(); got != tt.want {
					t.Errorf("late handler: replayed event stream = %v want %v", got, tt.want)
				}
				for _, f := range late.faultList() {
					t.Errorf("late handler: event stream: %s", f)
				}
			})
		}
	}
}

// TestFindK2Stress has no forced schedule: three collections are changed concurrently and at full speed, so whether it
// trips on the unfixed tree depends on the scheduler (it nearly always does). It is here to show that the stream stays
// well formed and converges to List() for arbitrary interleavings, not as the reproduction.
func TestFindK2Stress(t *testing.T) {
	for round := 0; round < 20; round++ {
		t.Run(fmt.Sprint(round), func(t *testing.T) {
			stop := test.NewStop(t)
			var cs []StaticCollection[findK2Obj]
			var asColl []Collection[findK2Obj]
			for i := 0; i < 3; i++ {
				c := NewStaticCollection[findK2Obj](nil, nil, WithStop(stop), WithName(fmt.Sprintf("c%d", i)))
				cs = append(cs, c)
				asColl = append(asColl, c)
			}
			jc := JoinCollection(asColl, WithStop(stop), WithName("join"))
			rec := &findK2Recorder{state: map[string]findK2Obj{}}
			reg := jc.Register(rec.handle)
			if !jc.WaitUntilSynced(stop) || !reg.WaitUntilSynced(stop) {
				t.Fatal("not synced")
			}
			var wg sync.WaitGroup
			for i, c := range cs {
				wg.Add(1)
				go func() {
					defer wg.Done()
					// cheap deterministic pseudo random sequence per collection and round
					seed := uint32(round*31 + i*7 + 1)
					for n := 0; n < 300; n++ {
						seed = seed*1664525 + 1013904223
						key := fmt.Sprintf("k%d", (seed>>8)%4)
						if (seed>>16)%3 == 0 {
							c.DeleteObject(key)
						} else {
							c.UpdateObject(findK2Obj{Name: key, Src: fmt.Sprintf("c%d#%d", i, n)})
						}
					}
				}()
			}
			wg.Wait()
			for i, c := range cs {
				c.UpdateObject(findK2Obj{Name: fmt.Sprintf("flush-c%d", i), Src: "flush"})
			}
			findK2Wait(t, "flush markers", func() bool {
				return rec.has("flush-c0", "flush") && rec.has("flush-c1", "flush") && rec.has("flush-c2", "flush")
			})
			if got, want := rec.replayed(), findK2Render(jc.List()); got != want {
				t.Errorf("replayed event stream = %v, List() = %v", got, want)
			}
			faults := map[string]int{}
			for _, f := range rec.faultList() {
				faults[f]++
			}
			if len(faults) > 0 {
				t.Errorf("event stream faults: %v", faults)
			}
		})
	}
}
