// Copyright Istio Authors
//
// Licensed under the Apache License, Version 2.0 (the "License");
// you may not use this file except in compliance with the License.
// You may obtain a copy of the License at
//
//     http://www.apache.org/licenses/LICENSE-2.0
//
// Unless required by applicable law or agreed to in writing, software
// distributed under the License is distributed on an "AS IS" BASIS,
// WITHOUT WARRANTIES OR CONDITIONS OF ANY KIND, either express or implied.
// See the License for the specific language governing permissions and
// limitations under the License.

package core

import (
	"strings"
	"testing"
	"time"

	cluster "github.com/envoyproxy/go-control-plane/envoy/config/cluster/v3"
	tlsv3 "github.com/envoyproxy/go-control-plane/envoy/extensions/transport_sockets/tls/v3"
	"google.golang.org/protobuf/proto"

	"istio.io/istio/pilot/pkg/model"
	"istio.io/istio/pkg/security"
)

const c06S2Config = `
apiVersion: networking.istio.io/v1
kind: ServiceEntry
metadata:
  name: file-tls
  namespace: default
spec:
  hosts:
  - files.example.com
  location: MESH_EXTERNAL
  resolution: STATIC
  endpoints:
  - address: 9.9.9.9
  ports:
  - number: 443
    name: tcp
    protocol: TCP
---
apiVersion: networking.istio.io/v1
kind: DestinationRule
metadata:
  name: file-tls
  namespace: default
spec:
  host: files.example.com
  trafficPolicy:
    tls:
      mode: MUTUAL
      clientCertificate: /etc/mycerts/cert.pem
      privateKey: /etc/mycerts/key.pem
      caCertificates: /etc/mycerts/ca.pem
---
apiVersion: networking.istio.io/v1
kind: ServiceEntry
metadata:
  name: cred-tls
  namespace: default
spec:
  hosts:
  - cred.example.com
  location: MESH_EXTERNAL
  resolution: STATIC
  endpoints:
  - address: 9.9.9.10
  ports:
  - number: 443
    name: tcp
    protocol: TCP
---
apiVersion: networking.istio.io/v1
kind: DestinationRule
metadata:
  name: cred-tls
  namespace: default
spec:
  host: cred.example.com
  workloadSelector:
    matchLabels:
      app: client
  trafficPolicy:
    tls:
      mode: MUTUAL
      credentialName: sds://my-external-cred
`

func c06S2Clusters(t *testing.T, cg *ConfigGenTest, cache model.XdsCache, p *model.Proxy) map[string]*cluster.Cluster {
	t.Helper()
	gen := NewConfigGenerator(cache)
	raw, _ := gen.BuildClusters(p, &model.PushRequest{Push: cg.PushContext(), Start: time.Now(), Forced: true})
	out := map[string]*cluster.Cluster{}
	for _, r := range raw {
		c := &cluster.Cluster{}
		if err := r.Resource.UnmarshalTo(c); err != nil {
			t.Fatal(err)
		}
		out[c.Name] = c
	}
	return out
}

// c06S2SdsSources summarises, for each SDS secret the cluster's upstream TLS context references,
// where Envoy is told to fetch it from (ADS or a named SDS cluster).
func c06S2SdsSources(t *testing.T, c *cluster.Cluster) string {
	t.Helper()
	if c.GetTransportSocket() == nil {
		return "<no transport socket>"
	}
	ctx := &tlsv3.UpstreamTlsContext{}
	if err := c.GetTransportSocket().GetTypedConfig().UnmarshalTo(ctx); err != nil {
		t.Fatal(err)
	}
	var parts []string
	desc := func(s *tlsv3.SdsSecretConfig) string {
		src := "ads"
		if api := s.GetSdsConfig().GetApiConfigSource(); api != nil {
			src = "cluster:" + api.GetGrpcServices()[0].GetEnvoyGrpc().GetClusterName()
		}
		return s.GetName() + "@" + src
	}
	for _, s := range ctx.GetCommonTlsContext().GetTlsCertificateSdsSecretConfigs() {
		parts = append(parts, desc(s))
	}
	if v := ctx.GetCommonTlsContext().GetCombinedValidationContext().GetValidationContextSdsSecretConfig(); v != nil {
		parts = append(parts, desc(v))
	}
	return strings.Join(parts, " , ")
}

// TestC06S2CredentialSocketCache: two proxies that differ only in whether the agent advertises the
// credential / file-credential SDS socket (node metadata "credential" / "file-credential") must each get the
// SDS sources a fresh generation would give them, even when they share the CDS cache.
func TestC06S2CredentialSocketCache(t *testing.T) {
	cg := NewConfigGenTest(t, TestOptions{ConfigString: c06S2Config})

	type tc struct {
		name        string
		clusterName string
		with        func() *model.Proxy // proxy that has the socket
		without     func() *model.Proxy // proxy that does not
	}
	mk := func(id string, typ model.NodeType, raw map[string]any) func() *model.Proxy {
		return func() *model.Proxy {
			return cg.SetupProxy(&model.Proxy{
				ID:          id,
				Type:        typ,
				IPAddresses: []string{"10.0.0.1"},
				Labels:      map[string]string{"app": "client"},
				Metadata: &model.NodeMetadata{
					Labels: map[string]string{"app": "client"},
					Raw:    raw,
				},
			})
		}
	}
	cases := []tc{
		{
			name:        "sidecar file-mounted certs (file-credential socket)",
			clusterName: "outbound|443||files.example.com",
			with:        mk("a.default", model.SidecarProxy, map[string]any{security.CredentialFileMetaDataName: "true"}),
			without:     mk("b.default", model.SidecarProxy, nil),
		},
		{
			name:        "sidecar credentialName sds:// with workloadSelector DR (credential socket)",
			clusterName: "outbound|443||cred.example.com",
			with:        mk("a.default", model.SidecarProxy, map[string]any{security.CredentialMetaDataName: "true"}),
			without:     mk("b.default", model.SidecarProxy, nil),
		},
		{
			name:        "gateway credentialName sds:// (credential socket)",
			clusterName: "outbound|443||cred.example.com",
			with:        mk("gwa.default", model.Router, map[string]any{security.CredentialMetaDataName: "true"}),
			without:     mk("gwb.default", model.Router, nil),
		},
	}
	for _, tt := range cases {
		t.Run(tt.name, func(t *testing.T) {
			wantWith := c06S2Clusters(t, cg, model.DisabledCache{}, tt.with())[tt.clusterName]
			wantWithout := c06S2Clusters(t, cg, model.DisabledCache{}, tt.without())[tt.clusterName]
			if wantWith == nil || wantWithout == nil {
				t.Fatalf("cluster %s not generated", tt.clusterName)
			}
			t.Logf("fresh, proxy WITH socket   : %s", c06S2SdsSources(t, wantWith))
			t.Logf("fresh, proxy WITHOUT socket: %s", c06S2SdsSources(t, wantWithout))
			if proto.Equal(wantWith, wantWithout) {
				t.Fatalf("precondition failed: the socket metadata does not influence the cluster")
			}

			t.Run("with-socket warms, without-socket reads", func(t *testing.T) {
				cache := model.NewXdsCache()
				_ = c06S2Clusters(t, cg, cache, tt.with())
				got := c06S2Clusters(t, cg, cache, tt.without())[tt.clusterName]
				if !proto.Equal(got, wantWithout) {
					t.Errorf("proxy WITHOUT socket got a cached cluster that differs from fresh generation:\n got: %s\nwant: %s",
						c06S2SdsSources(t, got), c06S2SdsSources(t, wantWithout))
				}
			})
			t.Run("without-socket warms, with-socket reads", func(t *testing.T) {
				cache := model.NewXdsCache()
				_ = c06S2Clusters(t, cg, cache, tt.without())
				got := c06S2Clusters(t, cg, cache, tt.with())[tt.clusterName]
				if !proto.Equal(got, wantWith) {
					t.Errorf("proxy WITH socket got a cached cluster that differs from fresh generation:\n got: %s\nwant: %s",
						c06S2SdsSources(t, got), c06S2SdsSources(t, wantWith))
				}
			})
		})
	}
}
