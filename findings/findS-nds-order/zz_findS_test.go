// Copyright Istio Authors
//
// Licensed under the Apache License, Version 2.0 (the "License");
// you may not use this file except in compliance with the License.
// You may obtain a copy of the License at
//
//     http://www.apache.org/licenses/LICENSE-2.0
//
// Unless required by applicable law or agreed to in writing, software
// distributed under the License is distributed on an "AS IS" BASIS,
// WITHOUT WARRANTIES OR CONDITIONS OF ANY KIND, either express or implied.
// See the License for the specific language governing permissions and
// limitations under the License.

package server_test

import (
	"sort"
	"strings"
	"testing"

	"google.golang.org/protobuf/proto"

	meshconfig "istio.io/api/mesh/v1alpha1"
	"istio.io/istio/pilot/pkg/model"
	"istio.io/istio/pilot/pkg/serviceregistry/provider"
	"istio.io/istio/pilot/test/xds"
	"istio.io/istio/pkg/config/constants"
	"istio.io/istio/pkg/config/host"
	"istio.io/istio/pkg/config/protocol"
	dnsServer "istio.io/istio/pkg/dns/server"
)

// findS: BuildNameTable ranges over PushContext.ServiceEndpoints(), a map[int][]*IstioEndpoint keyed by
// service port, and appends the addresses with first-seen de-duplication. When the ports of a headless
// service do not carry identical endpoint lists, the order of NameTable_NameInfo.Ips (which is the order in
// which the agent's DNS proxy answers) depends on which port the map iteration visits first.

const findSRuns = 200

func findSHeadlessService() *model.Service {
	return &model.Service{
		Hostname:       host.Name("headless.ns.svc.cluster.local"),
		DefaultAddress: constants.UnspecifiedIP,
		Ports: model.PortList{
			{Name: "http", Port: 80, Protocol: protocol.HTTP},
			{Name: "grpc", Port: 90, Protocol: protocol.GRPC},
		},
		Resolution: model.Passthrough,
		Attributes: model.ServiceAttributes{
			Name:            "headless",
			Namespace:       "ns",
			ServiceRegistry: provider.Kubernetes,
		},
	}
}

func findSEndpoints(portName string, port uint32, ips ...string) []*model.IstioEndpoint {
	out := make([]*model.IstioEndpoint, 0, len(ips))
	for _, ip := range ips {
		out = append(out, &model.IstioEndpoint{
			Addresses:       []string{ip},
			ServicePortName: portName,
			EndpointPort:    port,
			HealthStatus:    model.Healthy,
			Locality:        model.Locality{ClusterID: "cluster1"},
		})
	}
	return out
}

// findSDistinct calls BuildNameTable findSRuns times from the same proxy and push context and returns the
// distinct orders of Ips of the given host, and the number of distinct deterministic serialisations of the
// whole table.
func findSDistinct(t *testing.T, proxy *model.Proxy, push *model.PushContext, hostname string) ([]string, int) {
	t.Helper()
	orders := map[string]int{}
	bytesSeen := map[string]int{}
	for i := 0; i < findSRuns; i++ {
		nt := dnsServer.BuildNameTable(dnsServer.Config{Node: proxy, Push: push, MulticlusterHeadlessEnabled: true})
		ni, ok := nt.Table[hostname]
		if !ok {
			t.Fatalf("no entry for %s in name table (keys %v)", hostname, nameTableKeys(nt))
		}
		orders[strings.Join(ni.Ips, ",")]++
		// Deterministic marshalling sorts the map keys of the table, so any difference left is a difference of content.
		b, err := proto.MarshalOptions{Deterministic: true}.Marshal(nt)
		if err != nil {
			t.Fatal(err)
		}
		bytesSeen[string(b)]++
	}
	out := make([]string, 0, len(orders))
	for k, n := range orders {
		t.Logf("Ips order %q seen %d/%d times", k, n, findSRuns)
		out = append(out, k)
	}
	sort.Strings(out)
	return out, len(bytesSeen)
}

func findSPush(t *testing.T, instances map[int][]*model.IstioEndpoint) (*model.Proxy, *model.PushContext) {
	t.Helper()
	svc := findSHeadlessService()
	push := model.NewPushContext()
	push.Mesh = &meshconfig.MeshConfig{RootNamespace: "istio-system"}
	push.AddPublicServices([]*model.Service{svc})
	push.AddServiceInstances(svc, instances)
	proxy := &model.Proxy{
		IPAddresses: []string{"10.9.9.9"},
		Metadata:    &model.NodeMetadata{ClusterID: "cluster1"},
		Type:        model.SidecarProxy,
		DNSDomain:   "ns.svc.cluster.local",
	}
	proxy.SetSidecarScope(push)
	proxy.DiscoverIPMode()
	return proxy, push
}

// The ports of the headless service have different endpoint lists: the order of the ips must still be unique.
func TestFindS_HeadlessIpsOrderIndependentOfPortMapOrder(t *testing.T) {
	proxy, push := findSPush(t, map[int][]*model.IstioEndpoint{
		80: findSEndpoints("http", 8080, "10.0.0.1", "10.0.0.2"),
		90: findSEndpoints("grpc", 9090, "10.0.0.3", "10.0.0.1"),
	})
	orders, distinctBytes := findSDistinct(t, proxy, push, "headless.ns.svc.cluster.local")
	if len(orders) != 1 || distinctBytes != 1 {
		t.Fatalf("same proxy, same push context, %d calls: %d distinct orders of Ips %v, %d distinct serialised name tables; want 1",
			findSRuns, len(orders), orders, distinctBytes)
	}
}

// Control: identical endpoint lists on every port give a single order whatever port is visited first.
func TestFindS_Control_IdenticalPerPortLists(t *testing.T) {
	proxy, push := findSPush(t, map[int][]*model.IstioEndpoint{
		80: findSEndpoints("http", 8080, "10.0.0.1", "10.0.0.2", "10.0.0.3"),
		90: findSEndpoints("grpc", 9090, "10.0.0.1", "10.0.0.2", "10.0.0.3"),
	})
	orders, distinctBytes := findSDistinct(t, proxy, push, "headless.ns.svc.cluster.local")
	if len(orders) != 1 || distinctBytes != 1 {
		t.Fatalf("control: %d distinct orders of Ips %v, %d distinct serialised name tables; want 1", len(orders), orders, distinctBytes)
	}
}

// End to end through the Kubernetes registry, the endpoint index and PushContext.initServiceRegistry:
// a headless Service with two named target ports; pod 10.0.0.1 exposes both, 10.0.0.2 only "http" and
// 10.0.0.3 only "grpc", so that Kubernetes publishes one EndpointSlice per set of resolved ports.
const findSKube = `
apiVersion: v1
kind: Service
metadata:
  name: headless
  namespace: ns
spec:
  clusterIP: None
  selector:
    app: headless
  ports:
  - name: http
    port: 80
    targetPort: http
  - name: grpc
    port: 90
    targetPort: grpc
---
apiVersion: discovery.k8s.io/v1
kind: EndpointSlice
metadata:
  name: headless-a
  namespace: ns
  labels:
    kubernetes.io/service-name: headless
addressType: IPv4
ports:
- name: http
  port: 8080
  protocol: TCP
- name: grpc
  port: 9090
  protocol: TCP
endpoints:
- addresses: ["10.0.0.1"]
  conditions: {ready: true}
---
apiVersion: discovery.k8s.io/v1
kind: EndpointSlice
metadata:
  name: headless-b
  namespace: ns
  labels:
    kubernetes.io/service-name: headless
addressType: IPv4
ports:
- name: grpc
  port: 9090
  protocol: TCP
endpoints:
- addresses: ["10.0.0.3"]
  conditions: {ready: true}
---
apiVersion: discovery.k8s.io/v1
kind: EndpointSlice
metadata:
  name: headless-c
  namespace: ns
  labels:
    kubernetes.io/service-name: headless
addressType: IPv4
ports:
- name: http
  port: 8080
  protocol: TCP
endpoints:
- addresses: ["10.0.0.2"]
  conditions: {ready: true}
`

func TestFindS_EndToEnd_KubeEndpointSlices(t *testing.T) {
	s := xds.NewFakeDiscoveryServer(t, xds.FakeOptions{KubernetesObjectString: findSKube})
	proxy := s.SetupProxy(&model.Proxy{
		ConfigNamespace: "ns",
		IPAddresses:     []string{"10.9.9.9"},
		Metadata:        &model.NodeMetadata{Namespace: "ns"},
	})
	push := s.PushContext()
	hostname := "headless.ns.svc.cluster.local"
	svc := push.ServiceForHostname(proxy, host.Name(hostname))
	if svc == nil {
		t.Fatalf("service %s not found", hostname)
	}
	for port, eps := range push.ServiceEndpoints(svc.Key()) {
		var ips []string
		for _, ep := range eps {
			ips = append(ips, ep.Addresses...)
		}
		t.Logf("push context: port %d -> %v", port, ips)
	}
	orders, distinctBytes := findSDistinct(t, proxy, push, hostname)
	if len(orders) != 1 || distinctBytes != 1 {
		t.Fatalf("same proxy, same push context, %d calls: %d distinct orders of Ips %v, %d distinct serialised name tables; want 1",
			findSRuns, len(orders), orders, distinctBytes)
	}
}
