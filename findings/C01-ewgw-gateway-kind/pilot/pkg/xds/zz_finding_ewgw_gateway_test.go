// Copyright Istio Authors
//
// Licensed under the Apache License, Version 2.0 (the "License");
// you may not use this file except in compliance with the License.
// You may obtain a copy of the License at
//
//     http://www.apache.org/licenses/LICENSE-2.0
//
// Unless required by applicable law or agreed to in writing, software
// distributed under the License is distributed on an "AS IS" BASIS,
// WITHOUT WARRANTIES OR CONDITIONS OF ANY KIND, either express or implied.
// See the License for the specific language governing permissions and
// limitations under the License.

package xds_test

// Finding C01-ewgw-gateway-kind.
//
// Property under test: after any history of config changes a connected proxy holds exactly the
// resources a fresh generation would yield for it.
//
// An ambient east-west gateway is a proxy of type Waypoint. Its listeners (TLS passthrough) and
// clusters (services referenced by the gateway's VirtualServices) are derived from
// proxy.MergedGateway, i.e. from Gateway objects. A push whose ConfigsUpdated only contains
// kind.Gateway is skipped by ldsNeedsPush (skippedLdsConfigs[Waypoint] has kind.Gateway) and by
// cdsNeedsPush (skippedCdsConfigs has kind.Gateway, only Router is exempted).
//
// The tests drive the real DiscoveryServer over a real ADS stream ("old" proxy), apply a change
// that only touches a Gateway, and then compare what the long-lived proxy holds with what an
// identical proxy that connects afterwards ("fresh" proxy) receives.

import (
	"context"
	"net"
	"sort"
	"strings"
	"testing"
	"time"

	clusterv3 "github.com/envoyproxy/go-control-plane/envoy/config/cluster/v3"
	corev3 "github.com/envoyproxy/go-control-plane/envoy/config/core/v3"
	listenerv3 "github.com/envoyproxy/go-control-plane/envoy/config/listener/v3"
	discovery "github.com/envoyproxy/go-control-plane/envoy/service/discovery/v3"
	"google.golang.org/grpc"
	"google.golang.org/grpc/credentials/insecure"
	"google.golang.org/protobuf/proto"
	"google.golang.org/protobuf/types/known/anypb"
	metav1 "k8s.io/apimachinery/pkg/apis/meta/v1"
	k8s "sigs.k8s.io/gateway-api/apis/v1"
	"sigs.k8s.io/gateway-api/pkg/consts"

	networking "istio.io/api/networking/v1alpha3"
	"istio.io/istio/pilot/pkg/config/kube/gatewaycommon"
	"istio.io/istio/pilot/pkg/features"
	"istio.io/istio/pilot/pkg/model"
	v3 "istio.io/istio/pilot/pkg/xds/v3"
	"istio.io/istio/pilot/test/xds"
	"istio.io/istio/pkg/config"
	"istio.io/istio/pkg/config/mesh"
	"istio.io/istio/pkg/config/schema/gvk"
	"istio.io/istio/pkg/config/schema/gvr"
	"istio.io/istio/pkg/kube/kclient/clienttest"
	"istio.io/istio/pkg/slices"
	"istio.io/istio/pkg/test"
	"istio.io/istio/pkg/test/util/retry"
)

const (
	findingEwgwID = "waypoint~3.0.0.1~eastwestgateway-pod.istio-system~istio-system.svc.cluster.local"

	findingEwgwSvc = `apiVersion: v1
kind: Service
metadata:
  name: eastwestgateway
  namespace: istio-system
  labels:
    gateway.istio.io/managed: istio.io-eastwest-controller
    gateway.networking.k8s.io/gateway-name: eastwestgateway
    topology.istio.io/network: network-1
spec:
  clusterIP: 3.0.0.0
  ports:
  - appProtocol: hbone
    name: mesh
    port: 15008
  - name: tls-passthrough
    port: 6443
  - name: tls-passthrough-alt
    port: 7443
  selector:
    gateway.networking.k8s.io/gateway-name: eastwestgateway
`
	findingEwgwInstance = `apiVersion: networking.istio.io/v1
kind: WorkloadEntry
metadata:
  name: eastwestgateway-a
  namespace: istio-system
spec:
  address: 3.0.0.1
  labels:
    gateway.istio.io/managed: istio.io-eastwest-controller
    gateway.networking.k8s.io/gateway-name: eastwestgateway
`
	// The backend the TLS passthrough route points to (think: kube-apiserver exposed across networks).
	findingBackend = `apiVersion: networking.istio.io/v1
kind: ServiceEntry
metadata:
  name: apiserver
  namespace: istio-system
spec:
  hosts: [apiserver.example.com]
  addresses: [1.2.3.4]
  ports:
  - number: 443
    name: tls
    protocol: TLS
  resolution: STATIC
  endpoints:
  - address: 9.9.9.9
`
	// VirtualService bound to the (Istio) Gateway "passthrough".
	findingVS = `apiVersion: networking.istio.io/v1
kind: VirtualService
metadata:
  name: apiserver
  namespace: istio-system
spec:
  hosts: ["api.example.com"]
  gateways: [istio-system/passthrough]
  tls:
  - match:
    - sniHosts: ["api.example.com"]
    route:
    - destination:
        host: apiserver.example.com
        port:
          number: 443
`
	// Kubernetes Gateway API flavour of the same thing.
	findingK8sGateway = `apiVersion: gateway.networking.k8s.io/v1
kind: Gateway
metadata:
  name: eastwestgateway
  namespace: istio-system
  labels:
    topology.istio.io/network: network-1
spec:
  gatewayClassName: istio-east-west
  listeners:
  - name: mesh
    port: 15008
    protocol: HBONE
    tls:
      mode: Terminate
      options:
        gateway.istio.io/tls-terminate-mode: ISTIO_MUTUAL
  - name: tls-passthrough
    port: 6443
    protocol: TLS
    tls:
      mode: Passthrough
`
	findingTLSRoute = `apiVersion: gateway.networking.k8s.io/v1
kind: TLSRoute
metadata:
  name: apiserver
  namespace: istio-system
spec:
  parentRefs:
  - name: eastwestgateway
    kind: Gateway
    sectionName: tls-passthrough
  hostnames:
  - "api.example.com"
  rules:
  - backendRefs:
    - name: apiserver.example.com
      kind: Hostname
      group: networking.istio.io
      port: 443
`
)

func findingIstioGateway(port uint32) config.Config {
	return config.Config{
		Meta: config.Meta{
			GroupVersionKind: gvk.Gateway,
			Name:             "passthrough",
			Namespace:        "istio-system",
		},
		Spec: &networking.Gateway{
			Selector: map[string]string{"gateway.networking.k8s.io/gateway-name": "eastwestgateway"},
			Servers: []*networking.Server{{
				Port:  &networking.Port{Number: port, Name: "tls", Protocol: "TLS"},
				Hosts: []string{"*.example.com"},
				Tls:   &networking.ServerTLSSettings{Mode: networking.ServerTLSSettings_PASSTHROUGH},
			}},
		},
	}
}

func findingEwgwMetadata() model.NodeMetadata {
	return model.NodeMetadata{
		Namespace:    "istio-system",
		IstioVersion: "1.30.0",
		Network:      "network-1",
		Labels: map[string]string{
			"gateway.istio.io/managed":               "istio.io-eastwest-controller",
			"gateway.networking.k8s.io/gateway-name": "eastwestgateway",
		},
	}
}

// findingADS is a minimal state-of-the-world ADS client that remembers, per type, the last set of
// resources the server sent on this stream - i.e. what an Envoy connected for that long would hold.
type findingADS struct {
	t      *testing.T
	stream discovery.AggregatedDiscoveryService_StreamAggregatedResourcesClient
	node   *corev3.Node
	resp   chan *discovery.DiscoveryResponse
	held   map[string]map[string]*anypb.Any
	pushes map[string]int
}

func findingConnect(t *testing.T, d *xds.FakeDiscoveryServer, id string, meta model.NodeMetadata) *findingADS {
	t.Helper()
	conn, err := grpc.Dial("buffcon",
		grpc.WithTransportCredentials(insecure.NewCredentials()),
		grpc.WithBlock(),
		grpc.WithContextDialer(func(context.Context, string) (net.Conn, error) {
			return d.BufListener.Dial()
		}))
	if err != nil {
		t.Fatal(err)
	}
	ctx, cancel := context.WithCancel(context.Background())
	t.Cleanup(func() {
		cancel()
		_ = conn.Close()
	})
	stream, err := discovery.NewAggregatedDiscoveryServiceClient(conn).StreamAggregatedResources(ctx)
	if err != nil {
		t.Fatal(err)
	}
	a := &findingADS{
		t:      t,
		stream: stream,
		node:   &corev3.Node{Id: id, Metadata: meta.ToStruct()},
		resp:   make(chan *discovery.DiscoveryResponse, 100),
		held:   map[string]map[string]*anypb.Any{},
		pushes: map[string]int{},
	}
	go func() {
		for {
			r, err := stream.Recv()
			if err != nil {
				close(a.resp)
				return
			}
			a.resp <- r
		}
	}()
	// Envoy order: CDS then LDS
	for _, typ := range []string{v3.ClusterType, v3.ListenerType} {
		if err := stream.Send(&discovery.DiscoveryRequest{Node: a.node, TypeUrl: typ}); err != nil {
			t.Fatal(err)
		}
		if !a.recv(5 * time.Second) {
			t.Fatalf("no initial response for %v", typ)
		}
	}
	return a
}

// recv waits for one response, records it and ACKs it. Returns false on timeout.
func (a *findingADS) recv(timeout time.Duration) bool {
	a.t.Helper()
	select {
	case r, ok := <-a.resp:
		if !ok {
			a.t.Fatalf("stream closed")
		}
		m := map[string]*anypb.Any{}
		for _, res := range r.Resources {
			m[findingResourceName(a.t, res)] = res
		}
		a.held[r.TypeUrl] = m
		a.pushes[r.TypeUrl]++
		if err := a.stream.Send(&discovery.DiscoveryRequest{
			Node: a.node, TypeUrl: r.TypeUrl, ResponseNonce: r.Nonce, VersionInfo: r.VersionInfo,
		}); err != nil {
			a.t.Fatal(err)
		}
		return true
	case <-time.After(timeout):
		return false
	}
}

// drain consumes every response that arrives until the stream has been quiet for `quiet`.
func (a *findingADS) drain(quiet time.Duration) {
	for a.recv(quiet) {
	}
}

func (a *findingADS) names(typ string) []string {
	res := make([]string, 0, len(a.held[typ]))
	for n := range a.held[typ] {
		res = append(res, n)
	}
	sort.Strings(res)
	return res
}

func findingResourceName(t *testing.T, a *anypb.Any) string {
	t.Helper()
	switch a.TypeUrl {
	case v3.ClusterType:
		c := &clusterv3.Cluster{}
		if err := a.UnmarshalTo(c); err != nil {
			t.Fatal(err)
		}
		return c.Name
	case v3.ListenerType:
		l := &listenerv3.Listener{}
		if err := a.UnmarshalTo(l); err != nil {
			t.Fatal(err)
		}
		return l.Name
	}
	t.Fatalf("unexpected type %v", a.TypeUrl)
	return ""
}

// findingGatewayPorts returns the server ports of the Gateways that the current global push context binds to the
// east-west gateway workload.
func findingGatewayPorts(d *xds.FakeDiscoveryServer) []uint32 {
	p := d.SetupProxy(&model.Proxy{
		Type:            model.Waypoint,
		ConfigNamespace: "istio-system",
		IPAddresses:     []string{"3.0.0.1"},
		Labels:          findingEwgwMetadata().Labels,
	})
	if p.MergedGateway == nil {
		return nil
	}
	res := []uint32{}
	for _, sp := range p.MergedGateway.ServerPorts {
		res = append(res, sp.Number)
	}
	return res
}

// findingWaitPushed blocks until the change is visible in the global push context and the server has processed
// that push context for the connection with the given node ID (i.e. pushConnection ran for it, whether or not
// anything was sent).
func findingWaitPushed(t *testing.T, d *xds.FakeDiscoveryServer, nodeID string, visible func() bool) {
	t.Helper()
	retry.UntilOrFail(t, visible, retry.Timeout(10*time.Second), retry.Delay(10*time.Millisecond))
	deadline := time.Now().Add(10 * time.Second)
	for time.Now().Before(deadline) {
		d.EnsureSynced(t)
		want := d.Env().PushContext()
		for _, c := range d.Discovery.Clients() {
			if !strings.Contains(nodeID, "~"+c.Proxy().ID+"~") {
				continue
			}
			c.Proxy().RLock()
			got := c.Proxy().LastPushContext
			c.Proxy().RUnlock()
			if got == want {
				return
			}
		}
		time.Sleep(10 * time.Millisecond)
	}
	t.Fatalf("connection was never pushed the latest push context")
}

// findingCompare asserts that the long-lived proxy holds exactly what a proxy with the same identity
// connecting now (== fresh generation) receives.
func findingCompare(t *testing.T, old, fresh *findingADS) {
	t.Helper()
	for _, typ := range []string{v3.ListenerType, v3.ClusterType} {
		short := v3.GetShortType(typ)
		t.Logf("%s held by long-lived proxy (%d pushes): %v", short, old.pushes[typ], old.names(typ))
		t.Logf("%s of a fresh generation          : %v", short, fresh.names(typ))
		for name, want := range fresh.held[typ] {
			got, f := old.held[typ][name]
			if !f {
				t.Errorf("%s: long-lived proxy is missing resource %q that a fresh generation contains", short, name)
				continue
			}
			if !proto.Equal(got, want) {
				t.Errorf("%s: resource %q held by long-lived proxy differs from a fresh generation", short, name)
			}
		}
		for name := range old.held[typ] {
			if _, f := fresh.held[typ][name]; !f {
				t.Errorf("%s: long-lived proxy still holds stale resource %q that a fresh generation does not contain", short, name)
			}
		}
	}
}

func findingSetup(t *testing.T, configs ...string) *xds.FakeDiscoveryServer {
	test.SetForTest(t, &features.EnableAmbientMultiNetwork, true)
	c := strings.Join(configs, "\n---\n")
	return xds.NewFakeDiscoveryServer(t, xds.FakeOptions{
		ConfigString:           c,
		KubernetesObjectString: c,
		MeshConfig:             mesh.DefaultMeshConfig(),
	})
}

// findingStep connects a long-lived proxy (it receives the current, correct state), applies `change`,
// waits until the server has processed the resulting push for that connection, and then compares what the
// long-lived proxy holds with what an identical proxy connecting afterwards receives.
func findingStep(t *testing.T, d *xds.FakeDiscoveryServer, name string, change func(t *testing.T), wantGatewayPorts ...uint32) {
	t.Run(name, func(t *testing.T) {
		old := findingConnect(t, d, findingEwgwID, findingEwgwMetadata())
		t.Logf("LDS before the change: %v", old.names(v3.ListenerType))
		t.Logf("CDS before the change: %v", old.names(v3.ClusterType))
		change(t)
		findingWaitPushed(t, d, old.node.Id, func() bool {
			return slices.Equal(findingGatewayPorts(d), wantGatewayPorts)
		})
		old.drain(500 * time.Millisecond)
		fresh := findingConnect(t, d, strings.Replace(findingEwgwID, "eastwestgateway-pod", "eastwestgateway-fresh", 1), findingEwgwMetadata())
		findingCompare(t, old, fresh)
	})
}

// History: an Istio Gateway (TLS passthrough server) selecting the ambient east-west gateway is created, then
// moved to another port, then deleted. Every step only produces ConfigsUpdated={Gateway} (not Forced).
func TestFindingEastWestGatewayIstioGatewayChange(t *testing.T) {
	d := findingSetup(t, findingEwgwSvc, findingEwgwInstance, findingBackend, findingVS)

	findingStep(t, d, "create gateway", func(t *testing.T) {
		if _, err := d.Store().Create(findingIstioGateway(6443)); err != nil {
			t.Fatal(err)
		}
	}, 6443)
	findingStep(t, d, "change gateway port", func(t *testing.T) {
		cur := d.Store().Get(gvk.Gateway, "passthrough", "istio-system")
		upd := findingIstioGateway(7443)
		upd.ResourceVersion = cur.ResourceVersion
		if _, err := d.Store().Update(upd); err != nil {
			t.Fatal(err)
		}
	}, 7443)
	findingStep(t, d, "delete gateway", func(t *testing.T) {
		if err := d.Store().Delete(gvk.Gateway, "passthrough", "istio-system", nil); err != nil {
			t.Fatal(err)
		}
	})
}

// History: east-west gateway deployed through the Kubernetes Gateway API (class istio-east-west) with a
// TLS passthrough listener and a TLSRoute; then the listener port is edited. The gateway controller only
// emits ConfigsUpdated={Gateway} for this (the derived VirtualService is unchanged).
func TestFindingEastWestGatewayK8sGatewayChange(t *testing.T) {
	// Equivalent of running istiod with PILOT_ENABLE_AMBIENT=true AMBIENT_ENABLE_MULTI_NETWORK=true: the
	// class tables are computed at process init from these flags.
	test.SetForTest(t, &features.EnableAmbientMultiNetwork, true)
	test.SetForTest(t, &features.EnableAmbientWaypoints, true)
	test.SetForTest(t, &features.EnableAlphaGatewayAPI, true)
	test.SetForTest(t, &gatewaycommon.ClassInfos, gatewaycommon.GetClassInfos())
	test.SetForTest(t, &gatewaycommon.BuiltinGatewayClasses, gatewaycommon.GetBuiltinGatewayClasses())
	test.SetForTest(t, &gatewaycommon.AllClasses, gatewaycommon.GetAllClasses())
	d := findingSetup(t, findingEwgwSvc, findingEwgwInstance, findingBackend, findingK8sGateway, findingTLSRoute)
	// The fake kube client installs CRDs without the Gateway API bundle-version annotation, which makes the CRD
	// watcher ignore TLSRoute. Install it the way a real cluster has it.
	clienttest.MakeCRDWithAnnotations(t, d.KubeClient(), gvr.TLSRoute, map[string]string{consts.BundleVersionAnnotation: "v1.6.0"})
	// Wait for the gateway controller to have translated Gateway+TLSRoute and for the push context to have it.
	retry.UntilOrFail(t, func() bool {
		return len(d.PushContext().VirtualServicesForGateway("istio-system",
			"istio-system/eastwestgateway~istio-autogenerated-k8s-gateway~tls-passthrough")) > 0
	}, retry.Timeout(5*time.Second), retry.Delay(10*time.Millisecond))

	findingStep(t, d, "change listener port", func(t *testing.T) {
		gws := clienttest.NewWriter[*k8s.Gateway](t, d.KubeClient())
		gw, err := d.KubeClient().GatewayAPI().GatewayV1().Gateways("istio-system").Get(context.Background(), "eastwestgateway", metav1.GetOptions{})
		if err != nil {
			t.Fatal(err)
		}
		gw = gw.DeepCopy()
		for i := range gw.Spec.Listeners {
			if gw.Spec.Listeners[i].Name == "tls-passthrough" {
				gw.Spec.Listeners[i].Port = 7443
			}
		}
		gws.Update(gw)
	}, 7443)
}
