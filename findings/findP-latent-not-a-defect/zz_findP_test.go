// Copyright Istio Authors
//
// Licensed under the Apache License, Version 2.0 (the "License");
// you may not use this file except in compliance with the License.
// You may obtain a copy of the License at
//
//     http://www.apache.org/licenses/LICENSE-2.0
//
// Unless required by applicable law or agreed to in writing, software
// distributed under the License is distributed on an "AS IS" BASIS,
// WITHOUT WARRANTIES OR CONDITIONS OF ANY KIND, either express or implied.
// See the License for the specific language governing permissions and
// limitations under the License.

package core

import (
	"bytes"
	"testing"

	cluster "github.com/envoyproxy/go-control-plane/envoy/config/cluster/v3"
	"google.golang.org/protobuf/proto"
	"google.golang.org/protobuf/types/known/durationpb"

	"istio.io/api/label"
	networking "istio.io/api/networking/v1alpha3"
	"istio.io/istio/pilot/pkg/features"
	"istio.io/istio/pilot/pkg/model"
	"istio.io/istio/pkg/config"
	"istio.io/istio/pkg/config/constants"
	"istio.io/istio/pkg/config/host"
	"istio.io/istio/pkg/config/protocol"
	"istio.io/istio/pkg/config/schema/gvk"
	"istio.io/istio/pkg/test"
)

// Suspicion "findP": buildWaypointInboundVIPCluster executes `connectionPool.Http = nil` in its
// `terminate` (ambient east-west gateway) branch; if connectionPool is the ConnectionPoolSettings of
// the DestinationRule stored in the push context, one CDS generation for an east-west gateway would
// strip connectionPool.http from that DestinationRule for every later generation.
//
// TestFindP_EastWestGatewayDoesNotChangeLaterGenerations drives the production entry points and shows
// that this does NOT happen: the only caller (buildWaypointInboundVIP) passes policy=nil whenever
// isAmbientEastWestGateway(proxy) is true, so in the terminate branch connectionPool is always the fresh
// `&networking.ConnectionPoolSettings{}` allocated a few lines above. It PASSES on the unmodified tree.
//
// TestFindP_Latent_DirectCallWithPolicyEditsStoredDestinationRule calls buildWaypointInboundVIPCluster
// directly with an argument combination that no production caller produces (east-west gateway proxy AND a
// non-nil policy taken from the stored DestinationRule). It FAILS on the unmodified tree and documents
// that the hazard is latent only (it becomes live the day the "TODO: Confirm this decision" in
// buildWaypointInboundVIP is resolved by passing the DestinationRule to east-west gateways).

const findPHost = "findp.default.svc.cluster.local"

func findPSetup(t *testing.T) (*ConfigGenTest, *model.Service) {
	t.Helper()
	test.SetForTest(t, &features.EnableAmbient, true)
	test.SetForTest(t, &features.EnableAmbientMultiNetwork, true)

	svc := &model.Service{
		Hostname:       host.Name(findPHost),
		DefaultAddress: "10.10.0.1",
		Resolution:     model.ClientSideLB,
		Attributes: model.ServiceAttributes{
			Name:      "findp",
			Namespace: "default",
		},
		Ports: model.PortList{
			&model.Port{Name: "http", Port: 80, Protocol: protocol.HTTP},
		},
	}
	dr := config.Config{
		Meta: config.Meta{
			GroupVersionKind: gvk.DestinationRule,
			Name:             "findp",
			Namespace:        "default",
		},
		Spec: &networking.DestinationRule{
			Host: findPHost,
			TrafficPolicy: &networking.TrafficPolicy{
				ConnectionPool: &networking.ConnectionPoolSettings{
					Tcp: &networking.ConnectionPoolSettings_TCPSettings{
						MaxConnections: 11,
					},
					Http: &networking.ConnectionPoolSettings_HTTPSettings{
						Http2MaxRequests:         7,
						Http1MaxPendingRequests:  5,
						MaxRequestsPerConnection: 3,
						IdleTimeout:              durationpb.New(17_000_000_000),
						H2UpgradePolicy:          networking.ConnectionPoolSettings_HTTPSettings_UPGRADE,
					},
				},
			},
		},
	}
	cg := NewConfigGenTest(t, TestOptions{
		Services: []*model.Service{svc},
		Configs:  []config.Config{dr},
	})
	return cg, svc
}

func findPProxies(cg *ConfigGenTest) (sidecar, waypoint, eastWest *model.Proxy) {
	sidecar = cg.SetupProxy(&model.Proxy{
		Type:            model.SidecarProxy,
		ID:              "sidecar.default",
		ConfigNamespace: "default",
	})
	waypoint = cg.SetupProxy(&model.Proxy{
		Type:            model.Waypoint,
		ID:              "waypoint.default",
		ConfigNamespace: "default",
		IPAddresses:     []string{"3.0.0.1"},
		Labels: map[string]string{
			label.GatewayManaged.Name: constants.ManagedGatewayMeshControllerLabel,
		},
	})
	eastWest = cg.SetupProxy(&model.Proxy{
		Type:            model.Waypoint,
		ID:              "eastwest.default",
		ConfigNamespace: "default",
		IPAddresses:     []string{"3.0.0.2"},
		Labels: map[string]string{
			label.GatewayManaged.Name: constants.ManagedGatewayEastWestControllerLabel,
		},
	})
	return sidecar, waypoint, eastWest
}

// findPStoredDR returns the DestinationRule spec object that lives in the push context (no copy).
func findPStoredDR(t *testing.T, p *model.Proxy) (*config.Config, *networking.DestinationRule) {
	t.Helper()
	cfg := p.SidecarScope.DestinationRule(model.TrafficDirectionInbound, p, host.Name(findPHost)).GetRule()
	if cfg == nil {
		t.Fatalf("no DestinationRule for %s in the sidecar scope of %s", findPHost, p.ID)
	}
	return cfg, cfg.Spec.(*networking.DestinationRule)
}

func findPMarshal(t *testing.T, cs []*cluster.Cluster) []byte {
	t.Helper()
	var out []byte
	for _, c := range cs {
		b, err := proto.MarshalOptions{Deterministic: true}.Marshal(c)
		if err != nil {
			t.Fatal(err)
		}
		out = append(out, []byte(c.Name)...)
		out = append(out, 0)
		out = append(out, b...)
		out = append(out, 0)
	}
	return out
}

func findPNamed(cs []*cluster.Cluster, name string) *cluster.Cluster {
	for _, c := range cs {
		if c.Name == name {
			return c
		}
	}
	return nil
}

func TestFindP_EastWestGatewayDoesNotChangeLaterGenerations(t *testing.T) {
	cg, svc := findPSetup(t)
	push := cg.PushContext()
	sidecar, waypoint, eastWest := findPProxies(cg)
	if !isAmbientEastWestGateway(eastWest) || isAmbientEastWestGateway(waypoint) {
		t.Fatalf("proxy setup is wrong: eastWest=%v waypoint=%v", isAmbientEastWestGateway(eastWest), isAmbientEastWestGateway(waypoint))
	}
	svcs := map[host.Name]*model.Service{svc.Hostname: svc}

	// The three proxies resolve the very same stored DestinationRule object (push context state).
	_, storedDR := findPStoredDR(t, waypoint)
	_, storedDRSidecar := findPStoredDR(t, sidecar)
	_, storedDREW := findPStoredDR(t, eastWest)
	if storedDR != storedDRSidecar || storedDR != storedDREW {
		t.Fatalf("expected one shared stored DestinationRule, got %p %p %p", storedDR, storedDRSidecar, storedDREW)
	}
	// Aliasing premise of the suspicion: without port level settings GetPortLevelTrafficPolicy returns
	// the stored TrafficPolicy itself, so selectTrafficPolicyComponents yields the stored ConnectionPoolSettings.
	before := proto.Clone(storedDR).(*networking.DestinationRule)

	sidecarClusters := func() []*cluster.Cluster { return cg.Clusters(sidecar) }
	waypointVIP := func(p *model.Proxy) []*cluster.Cluster {
		cb := NewClusterBuilder(p, &model.PushRequest{Push: push}, nil)
		// production path: BuildClusters -> buildWaypointInboundClusters -> buildWaypointInboundVIP -> buildWaypointInboundVIPCluster
		return cg.ConfigGen.buildWaypointInboundClusters(cb, p, push, svcs)
	}

	// (a) sidecar and waypoint first
	sc1 := sidecarScopeCluster(t, sidecarClusters())
	wp1 := waypointVIP(waypoint)
	wpHTTP := findPNamed(wp1, "inbound-vip|80|http|"+findPHost)
	if wpHTTP == nil {
		t.Fatalf("waypoint inbound-vip http cluster missing: %v", clusterNames(wp1))
	}
	for name, c := range map[string]*cluster.Cluster{"sidecar outbound": sc1, "waypoint inbound-vip": wpHTTP} {
		th := c.GetCircuitBreakers().GetThresholds()
		if len(th) == 0 || th[0].GetMaxRequests().GetValue() != 7 || th[0].GetMaxPendingRequests().GetValue() != 5 ||
			th[0].GetMaxConnections().GetValue() != 11 {
			t.Fatalf("%s: circuit breaker does not reflect the DestinationRule: %v", name, th)
		}
	}

	// (b) ambient east-west gateway from the SAME push context (twice, and through BuildClusters as well)
	ew1 := waypointVIP(eastWest)
	ewTCP := findPNamed(ew1, "inbound-vip|80|tcp|"+findPHost)
	if ewTCP == nil {
		t.Fatalf("east-west inbound-vip tcp cluster missing: %v", clusterNames(ew1))
	}
	if got := ewTCP.GetCircuitBreakers().GetThresholds()[0].GetMaxConnections().GetValue(); got == 11 {
		t.Fatalf("east-west gateway unexpectedly applied the DestinationRule (maxConnections=%d): premise of this test changed", got)
	}
	ew2 := waypointVIP(eastWest)
	_ = cg.Clusters(eastWest)
	if !bytes.Equal(findPMarshal(t, ew1), findPMarshal(t, ew2)) {
		t.Errorf("east-west gateway clusters differ between two generations from the same push context")
	}

	// stored DestinationRule untouched?
	if !proto.Equal(before, storedDR) {
		t.Errorf("generating for the east-west gateway edited the stored DestinationRule:\nbefore: %v\nafter:  %v", before, storedDR)
	}

	// (c) sidecar and waypoint again
	sc2 := sidecarScopeCluster(t, sidecarClusters())
	wp2 := waypointVIP(waypoint)
	if !bytes.Equal(findPMarshal(t, []*cluster.Cluster{sc1}), findPMarshal(t, []*cluster.Cluster{sc2})) {
		t.Errorf("sidecar outbound cluster changed after an east-west gateway generation:\nfirst:  %v\nsecond: %v", sc1, sc2)
	}
	if !bytes.Equal(findPMarshal(t, wp1), findPMarshal(t, wp2)) {
		t.Errorf("waypoint clusters changed after an east-west gateway generation:\nfirst:  %v\nsecond: %v",
			findPNamed(wp1, wpHTTP.Name), findPNamed(wp2, wpHTTP.Name))
	}
}

func sidecarScopeCluster(t *testing.T, cs []*cluster.Cluster) *cluster.Cluster {
	t.Helper()
	c := findPNamed(cs, "outbound|80||"+findPHost)
	if c == nil {
		t.Fatalf("sidecar outbound cluster missing: %v", clusterNames(cs))
	}
	return c
}

func clusterNames(cs []*cluster.Cluster) []string {
	out := make([]string, 0, len(cs))
	for _, c := range cs {
		out = append(out, c.Name)
	}
	return out
}

// NOT a production scenario: buildWaypointInboundVIPCluster is called directly with an east-west gateway
// proxy and the policy of the stored DestinationRule. buildWaypointInboundVIP never does that today
// (it passes nil, nil for east-west gateways).
func TestFindP_Latent_DirectCallWithPolicyEditsStoredDestinationRule(t *testing.T) {
	cg, svc := findPSetup(t)
	push := cg.PushContext()
	_, waypoint, eastWest := findPProxies(cg)

	cfg, storedDR := findPStoredDR(t, eastWest)
	before := proto.Clone(storedDR).(*networking.DestinationRule)
	port := svc.Ports[0]

	wpCB := NewClusterBuilder(waypoint, &model.PushRequest{Push: push}, nil)
	wp1 := wpCB.buildWaypointInboundVIP(waypoint, map[host.Name]*model.Service{svc.Hostname: svc}, push.Mesh)

	ewCB := NewClusterBuilder(eastWest, &model.PushRequest{Push: push}, nil)
	// what the caller would compute if it did read the DestinationRule for east-west gateways
	policy := storedDR.GetTrafficPolicy()
	_ = ewCB.buildWaypointInboundVIPCluster(eastWest, svc, *port, "tcp", push.Mesh, policy, cfg)

	if !proto.Equal(before, storedDR) {
		t.Errorf("buildWaypointInboundVIPCluster(terminate) edited the stored DestinationRule:\nbefore: %v\nafter:  %v",
			before.GetTrafficPolicy().GetConnectionPool(), storedDR.GetTrafficPolicy().GetConnectionPool())
	}
	wp2 := wpCB.buildWaypointInboundVIP(waypoint, map[host.Name]*model.Service{svc.Hostname: svc}, push.Mesh)
	if !bytes.Equal(findPMarshal(t, wp1), findPMarshal(t, wp2)) {
		name := "inbound-vip|80|http|" + findPHost
		t.Errorf("waypoint cluster changed after the direct terminate call:\nfirst:  %v\nsecond: %v",
			findPNamed(wp1, name).GetCircuitBreakers(), findPNamed(wp2, name).GetCircuitBreakers())
	}
}
