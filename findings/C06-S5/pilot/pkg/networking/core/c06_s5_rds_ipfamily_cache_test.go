// Copyright Istio Authors
//
// Licensed under the Apache License, Version 2.0 (the "License");
// you may not use this file except in compliance with the License.
// You may obtain a copy of the License at
//
//     http://www.apache.org/licenses/LICENSE-2.0
//
// Unless required by applicable law or agreed to in writing, software
// distributed under the License is distributed on an "AS IS" BASIS,
// WITHOUT WARRANTIES OR CONDITIONS OF ANY KIND, either express or implied.
// See the License for the specific language governing permissions and
// limitations under the License.

package core

import (
	"fmt"
	"strings"
	"testing"
	"time"

	route "github.com/envoyproxy/go-control-plane/envoy/config/route/v3"
	"google.golang.org/protobuf/proto"

	"istio.io/istio/pilot/pkg/features"
	"istio.io/istio/pilot/pkg/model"
	"istio.io/istio/pkg/cluster"
	"istio.io/istio/pkg/config/protocol"
	"istio.io/istio/pkg/test"
)

// c06S5Routes runs the real RDS generator for route "80" with the given cache.
func c06S5Routes(t *testing.T, cg *ConfigGenTest, cache model.XdsCache, p *model.Proxy, routeName string) *route.RouteConfiguration {
	t.Helper()
	gen := NewConfigGenerator(cache)
	res, _ := gen.BuildHTTPRoutes(p, &model.PushRequest{Push: cg.PushContext(), Start: time.Now(), Forced: true}, []string{routeName})
	if len(res) != 1 {
		t.Fatalf("expected 1 route configuration, got %d", len(res))
	}
	rc := &route.RouteConfiguration{}
	if err := res[0].Resource.UnmarshalTo(rc); err != nil {
		t.Fatal(err)
	}
	return rc
}

// c06S5IPDomains returns the IP-literal domains of the virtual host for the dual-stack service.
func c06S5IPDomains(rc *route.RouteConfiguration) string {
	for _, vh := range rc.GetVirtualHosts() {
		if !strings.HasPrefix(vh.GetName(), "dual.default.svc.cluster.local") {
			continue
		}
		var ips []string
		for _, d := range vh.GetDomains() {
			if strings.HasPrefix(d, "10.") || strings.HasPrefix(d, "[") || strings.Contains(d, "fd00") {
				ips = append(ips, d)
			}
		}
		return fmt.Sprintf("%v", ips)
	}
	return "<virtual host missing>"
}

// TestC06S5RouteIPFamilyCache: a dual-stack Kubernetes service (one IPv4 and one IPv6 ClusterIP). The sidecar outbound
// virtual host domains contain only the VIPs of the families the proxy supports (Service.GetAllAddressesForProxy).
// An IPv4-only, an IPv6-only and a dual-stack sidecar in the same namespace/cluster must each get exactly the domains
// a fresh generation would produce, also when they share the RDS cache.
func TestC06S5RouteIPFamilyCache(t *testing.T) {
	svc := &model.Service{
		Hostname:       "dual.default.svc.cluster.local",
		DefaultAddress: "10.96.0.5",
		ClusterVIPs: model.AddressMap{Addresses: map[cluster.ID][]string{
			"cluster1": {"10.96.0.5", "fd00:96::5"},
		}},
		Ports:      model.PortList{{Port: 80, Protocol: protocol.HTTP, Name: "http"}},
		Resolution: model.ClientSideLB,
		Attributes: model.ServiceAttributes{Name: "dual", Namespace: "default"},
	}
	cg := NewConfigGenTest(t, TestOptions{Services: []*model.Service{svc}})

	mk := func(id string, ips ...string) func() *model.Proxy {
		return func() *model.Proxy {
			return cg.SetupProxy(&model.Proxy{
				ID:          id,
				IPAddresses: ips,
				Metadata:    &model.NodeMetadata{ClusterID: "cluster1"},
			})
		}
	}
	proxies := map[string]func() *model.Proxy{
		"v4":   mk("v4.default", "10.0.0.1"),
		"v6":   mk("v6.default", "2001:db8::1"),
		"dual": mk("dual.default", "10.0.0.2", "2001:db8::2"),
	}

	const routeName = "80"
	for _, dualStackFlag := range []bool{false, true} {
		t.Run(fmt.Sprintf("ISTIO_DUAL_STACK=%v", dualStackFlag), func(t *testing.T) {
			test.SetForTest(t, &features.EnableDualStack, dualStackFlag)
			want := map[string]*route.RouteConfiguration{}
			for _, n := range []string{"v4", "v6", "dual"} {
				want[n] = c06S5Routes(t, cg, model.DisabledCache{}, proxies[n](), routeName)
				t.Logf("fresh for %-4s proxy: IP domains of vhost dual.default.svc.cluster.local:80 = %s", n, c06S5IPDomains(want[n]))
			}
			if proto.Equal(want["v4"], want["v6"]) {
				t.Fatalf("precondition failed: the proxy IP family does not influence the route configuration")
			}
			for _, pair := range [][2]string{{"v4", "v6"}, {"v6", "v4"}, {"v4", "dual"}, {"dual", "v4"}, {"dual", "v6"}} {
				warm, read := pair[0], pair[1]
				t.Run(fmt.Sprintf("%s warms cache, %s reads", warm, read), func(t *testing.T) {
					cache := model.NewXdsCache()
					_ = c06S5Routes(t, cg, cache, proxies[warm](), routeName)
					got := c06S5Routes(t, cg, cache, proxies[read](), routeName)
					if !proto.Equal(got, want[read]) {
						t.Errorf("%s proxy served after %s proxy warmed the shared RDS cache differs from fresh generation:\n got IP domains: %s\nwant IP domains: %s",
							read, warm, c06S5IPDomains(got), c06S5IPDomains(want[read]))
					}
				})
			}
		})
	}
}
