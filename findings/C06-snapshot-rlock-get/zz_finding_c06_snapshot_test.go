package model

import (
	"sync"
	"testing"
	"time"

	discovery "github.com/envoyproxy/go-control-plane/envoy/service/discovery/v3"
)

type findingEntry struct{ key string }

func (e findingEntry) Type() string                       { return EDSType }
func (e findingEntry) Key() any                           { return uint64(len(e.key)) + uint64(e.key[0]) }
func (e findingEntry) DependentConfigs() []ConfigHash     { return nil }
func (e findingEntry) Cacheable() bool                    { return true }

// Snapshot (used by the cache debug endpoint) must be safe to run concurrently with itself and with Get:
// the LRU's Get reorders its recency list, so calling it under the read lock is a data race.
// Run with -race: fails (race detected) before the fix, passes after.
func TestFindingSnapshotConcurrent(t *testing.T) {
	c := NewXdsCache()
	req := &PushRequest{Start: time.Now()}
	for _, k := range []string{"a", "b", "c", "d"} {
		c.Add(findingEntry{k}, req, &discovery.Resource{Name: k})
	}
	var wg sync.WaitGroup
	for i := 0; i < 4; i++ {
		wg.Add(1)
		go func() {
			defer wg.Done()
			for j := 0; j < 200; j++ {
				c.Snapshot()
			}
		}()
	}
	wg.Wait()
}
