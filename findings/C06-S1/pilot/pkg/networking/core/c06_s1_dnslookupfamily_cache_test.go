// Copyright Istio Authors
//
// Licensed under the Apache License, Version 2.0 (the "License");
// you may not use this file except in compliance with the License.
// You may obtain a copy of the License at
//
//     http://www.apache.org/licenses/LICENSE-2.0
//
// Unless required by applicable law or agreed to in writing, software
// distributed under the License is distributed on an "AS IS" BASIS,
// WITHOUT WARRANTIES OR CONDITIONS OF ANY KIND, either express or implied.
// See the License for the specific language governing permissions and
// limitations under the License.

package core

import (
	"testing"
	"time"

	cluster "github.com/envoyproxy/go-control-plane/envoy/config/cluster/v3"
	"google.golang.org/protobuf/proto"

	"istio.io/istio/pilot/pkg/features"
	"istio.io/istio/pilot/pkg/model"
	"istio.io/istio/pkg/test"
)

const c06S1Config = `
apiVersion: networking.istio.io/v1
kind: ServiceEntry
metadata:
  name: ext-dns
  namespace: default
spec:
  hosts:
  - ext.example.com
  location: MESH_EXTERNAL
  resolution: DNS
  ports:
  - number: 80
    name: http
    protocol: HTTP
---
apiVersion: networking.istio.io/v1
kind: ServiceEntry
metadata:
  name: ext-dns-rr
  namespace: default
spec:
  hosts:
  - extrr.example.com
  location: MESH_EXTERNAL
  resolution: DNS_ROUND_ROBIN
  ports:
  - number: 80
    name: http
    protocol: HTTP
`

// c06S1Clusters runs the real CDS generator with the given cache and returns the named outbound clusters.
func c06S1Clusters(t *testing.T, cg *ConfigGenTest, cache model.XdsCache, p *model.Proxy) map[string]*cluster.Cluster {
	t.Helper()
	gen := NewConfigGenerator(cache)
	raw, _ := gen.BuildClusters(p, &model.PushRequest{Push: cg.PushContext(), Start: time.Now(), Forced: true})
	out := map[string]*cluster.Cluster{}
	for _, r := range raw {
		c := &cluster.Cluster{}
		if err := r.Resource.UnmarshalTo(c); err != nil {
			t.Fatal(err)
		}
		out[c.Name] = c
	}
	return out
}

// TestC06S1DNSLookupFamilyCache: an IPv4-only sidecar and a dual-stack sidecar that agree on every attribute hashed by
// clusterCache must each receive the dns_lookup_family a fresh generation would compute for them.
func TestC06S1DNSLookupFamilyCache(t *testing.T) {
	test.SetForTest(t, &features.EnableDualStack, true)

	cg := NewConfigGenTest(t, TestOptions{ConfigString: c06S1Config})
	newV4 := func() *model.Proxy {
		return cg.SetupProxy(&model.Proxy{ID: "v4only.default", IPAddresses: []string{"10.0.0.1"}})
	}
	newDual := func() *model.Proxy {
		return cg.SetupProxy(&model.Proxy{ID: "dual.default", IPAddresses: []string{"10.0.0.2", "2001:db8::2"}})
	}
	names := []string{"outbound|80||ext.example.com", "outbound|80||extrr.example.com"}

	// Ground truth: what each proxy gets without any cache.
	wantV4 := c06S1Clusters(t, cg, model.DisabledCache{}, newV4())
	wantDual := c06S1Clusters(t, cg, model.DisabledCache{}, newDual())
	for _, n := range names {
		if wantV4[n] == nil || wantDual[n] == nil {
			t.Fatalf("cluster %s not generated", n)
		}
		t.Logf("fresh %s: v4-only proxy=%v dual-stack proxy=%v", n, wantV4[n].DnsLookupFamily, wantDual[n].DnsLookupFamily)
		if wantV4[n].DnsLookupFamily != cluster.Cluster_V4_ONLY || wantDual[n].DnsLookupFamily != cluster.Cluster_ALL {
			t.Fatalf("precondition: expected V4_ONLY / ALL, got %v / %v", wantV4[n].DnsLookupFamily, wantDual[n].DnsLookupFamily)
		}
	}

	t.Run("v4 warms cache, dual-stack reads", func(t *testing.T) {
		cache := model.NewXdsCache()
		_ = c06S1Clusters(t, cg, cache, newV4())
		got := c06S1Clusters(t, cg, cache, newDual())
		for _, n := range names {
			if !proto.Equal(got[n], wantDual[n]) {
				t.Errorf("%s: dual-stack proxy served from shared cache differs from fresh generation: got dns_lookup_family=%v want %v",
					n, got[n].GetDnsLookupFamily(), wantDual[n].GetDnsLookupFamily())
			}
		}
	})
	t.Run("dual-stack warms cache, v4 reads", func(t *testing.T) {
		cache := model.NewXdsCache()
		_ = c06S1Clusters(t, cg, cache, newDual())
		got := c06S1Clusters(t, cg, cache, newV4())
		for _, n := range names {
			if !proto.Equal(got[n], wantV4[n]) {
				t.Errorf("%s: IPv4-only proxy served from shared cache differs from fresh generation: got dns_lookup_family=%v want %v",
					n, got[n].GetDnsLookupFamily(), wantV4[n].GetDnsLookupFamily())
			}
		}
	})
}
